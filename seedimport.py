#!/usr/bin/env python3
# dev helper: import a sub-agent's deliverables into /verif/seeded/<id>/
import json, os, shutil, sys
def imp(src, sid, prop, pkg, run, what, needs, checks=None, stub=False, race=False, skip=()):
    dst = '/verif/seeded/%s' % sid
    os.makedirs(dst + '/demo', exist_ok=True)
    shutil.copy(src + '/patch.diff', dst + '/patch.diff')
    for f in os.listdir(src + '/demo'):
        if (f.endswith('.go') or f.endswith('.md')) and f not in skip:
            shutil.copy(os.path.join(src, 'demo', f), dst + '/demo/' + f)
    if os.path.exists(src + '/notes.md'):
        shutil.copy(src + '/notes.md', dst + '/notes.md')
    json.dump({"property": prop, "what": what, "needs": needs,
               "author": "independent sub-agent given only the property text (round 2: plus a list of ideas already used) and a scratch worktree",
               "demo": {"pkg": pkg, "run": run, "stub": stub, "race": race}, "checks": checks or [prop]},
              open(dst + '/meta.json', 'w'), indent=1)
