#!/usr/bin/env python3
# dev helper: run many C20 workloads and print every race signature seen (not a check)
import sys, os, collections, re
seed = int(sys.argv[1]); cases = sys.argv[2]
sys.argv = ['check']
exec(open('/verif/check').read().split("if __name__")[0])
PROPS["C20"][0]["quick"] = T(shards=12, timeout=3000, env={"VERIF_C20_CASES": cases})
if os.environ.get("DAEMON_RUNS"):
    PROPS["C20"] = [PROPS["C20"][1]]
    PROPS["C20"][0]["quick"] = T(shards=8, timeout=3000, env={"VERIF_C20_DAEMON_RUNS": os.environ["DAEMON_RUNS"]})
status, violations, procs, rundir, wall = run_units("C20", "quick", seed)
sigs = collections.Counter()
ncases = 0
for pr in procs:
    out = open(pr["log"], errors="replace").read()
    ncases += out.count("C20-CASE")
    for b in RACE_RE.findall(out):
        sigs[race_signature(b)] += 1
    for m in re.finditer(r"^fatal error: (.*)$", out, re.M):
        sigs["fatal: " + m.group(1)] += 1
known = set(known_whats("C20"))
print("seed", seed, "cases", ncases, "wall", round(wall), "signatures", len(sigs))
for k, v in sorted(sigs.items()):
    print("  ", v, k, "" if k in known else "   <<< NOT KNOWN")
