package props

// C15 (CLI differential) - the histories of TestC15 perform `fan reset` / `fan init` with the same
// exported calls as cmd/fan/reset.go and cmd/fan/init.go. This unit checks that assumption against
// the real binary on real files: `fan2go -c cfg fan --id X reset` must remove both stored entries of
// fan X and leave another fan's entries alone; `fan2go -c cfg fan --id X init` must leave a stored
// PWM map for X (so that the next start does not sweep) and again not touch the other fan.

import (
	"errors"
	"fmt"
	"os"
	"os/exec"
	"path/filepath"
	"testing"

	"github.com/markusressel/fan2go/internal/configuration"
	"github.com/markusressel/fan2go/internal/fans"
	"github.com/markusressel/fan2go/internal/persistence"
	"github.com/markusressel/fan2go/verifharness/sim"
)

func TestC15Cli(t *testing.T) {
	st := sim.NewStats("C15")
	defer st.Flush()
	bin := os.Getenv("VERIF_FAN2GO_BIN")
	if bin == "" {
		t.Skip("VERIF_FAN2GO_BIN not set")
	}
	dir, err := os.MkdirTemp(sim.WorkDir(), "c15cli-")
	if err != nil {
		t.Fatal(err)
	}
	defer os.RemoveAll(dir)
	w := func(p, v string) { _ = os.WriteFile(p, []byte(v+"\n"), 0644) }
	dbPath := filepath.Join(dir, "db", "fan2go.db")
	cfg := fmt.Sprintf("dbPath: %s\nfans:\n", dbPath)
	for _, id := range []string{"fa", "fb"} {
		w(filepath.Join(dir, id+"_pwm"), "120")
		cfg += fmt.Sprintf("  - id: %s\n    file:\n      path: %s\n    curve: c1\n", id, filepath.Join(dir, id+"_pwm"))
	}
	w(filepath.Join(dir, "temp"), "45000")
	cfg += fmt.Sprintf("sensors:\n  - id: s1\n    file:\n      path: %s\ncurves:\n  - id: c1\n    linear:\n      sensor: s1\n      min: 30\n      max: 80\n", filepath.Join(dir, "temp"))
	cfgPath := filepath.Join(dir, "fan2go.yaml")
	_ = os.WriteFile(cfgPath, []byte(cfg), 0644)
	pers := persistence.NewPersistence(dbPath)
	_ = pers.Init()
	seed := func(id string) {
		twin, _ := fans.NewFan(configuration.FanConfig{ID: id, HwMon: &configuration.HwMonFanConfig{}})
		d := map[int]float64{0: 0, 255: 2550}
		_ = twin.AttachFanRpmCurveData(&d)
		if err := pers.SaveFanPwmData(twin); err != nil {
			t.Fatal(err)
		}
		if err := pers.SaveFanPwmMap(id, map[int]int{0: 0, 255: 255}); err != nil {
			t.Fatal(err)
		}
	}
	has := func(id string) (data, pmap bool) {
		twin, _ := fans.NewFan(configuration.FanConfig{ID: id, HwMon: &configuration.HwMonFanConfig{}})
		_, e1 := pers.LoadFanPwmData(twin)
		_, e2 := pers.LoadFanPwmMap(id)
		return !errors.Is(e1, os.ErrNotExist), !errors.Is(e2, os.ErrNotExist)
	}
	run := func(args ...string) (string, error) {
		cmd := exec.Command(bin, append([]string{"-c", cfgPath, "--no-style", "--no-color"}, args...)...)
		cmd.Env = append(os.Environ(), "FAN2GO_VERIF_HWMON_ROOT="+filepath.Join(dir, "none"), "HOME="+dir)
		out, err := cmd.CombinedOutput()
		return string(out), err
	}
	var vs []sim.Violation
	seed("fa")
	seed("fb")
	out, err := run("fan", "--id", "fa", "reset")
	d, m := has("fa")
	od, om := has("fb")
	if err != nil || d || m {
		vs = append(vs, sim.Violation{Key: "cli-reset-leaves-data", Msg: fmt.Sprintf("`fan --id fa reset`: err %v, RPM data still stored %v, PWM map still stored %v; output %s", err, d, m, clip(out))})
	}
	if !od || !om {
		vs = append(vs, sim.Violation{Key: "cli-reset-touches-other-fan", Msg: fmt.Sprintf("`fan --id fa reset` removed fan fb's entries (data %v map %v)", od, om)})
	}
	st.CaseH("cli-reset", map[string]any{"op": "fan --id fa reset", "faData": d, "faMap": m, "fbData": od, "fbMap": om}, true, "cli-differential")
	out, err = run("fan", "--id", "fa", "init")
	d, m = has("fa")
	od, om = has("fb")
	if err != nil || !m {
		vs = append(vs, sim.Violation{Key: "cli-init-stores-no-map", Msg: fmt.Sprintf("`fan --id fa init`: err %v, PWM map stored %v; output %s", err, m, clip(out))})
	}
	if !od || !om {
		vs = append(vs, sim.Violation{Key: "cli-init-touches-other-fan", Msg: fmt.Sprintf("`fan --id fa init` removed fan fb's entries (data %v map %v)", od, om)})
	}
	st.CaseH("cli-init", map[string]any{"op": "fan --id fa init", "faData": d, "faMap": m, "fbData": od, "fbMap": om}, true, "cli-differential")
	if fail := st.Judge(vs); len(fail) > 0 {
		st.SaveReplay("TestC15Cli", map[string]any{"config": cfg}, fail)
		t.Fatalf("C15: %v", fail)
	}
}
