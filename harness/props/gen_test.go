package props

import (
	"math"
	"sort"

	"github.com/markusressel/fan2go/verifharness/sim"
	"pgregory.net/rapid"
)

// ---- shared generators -------------------------------------------------------------------------

type fanOpts struct {
	neverStop  *bool // fixed value or nil = drawn
	identity   bool  // only identity PWM maps (request == device value)
	minLtMax   bool  // require min < max
	kinds      []string
	noQuant    bool
	alwaysRpm  bool
	monotone   bool // only non-decreasing maps
	fullLimits bool // limits (0,255)
}

func quantMap(q int) map[int]int {
	m := map[int]int{}
	for i := 0; i <= 255; i++ {
		m[i] = (i / q) * q
	}
	return m
}

// genLimits draws 0 <= min <= max <= 255 biased to the corners.
func genLimits(t *rapid.T, strict bool) (int, int) {
	pick := rapid.OneOf(rapid.IntRange(0, 255), rapid.SampledFrom([]int{0, 1, 50, 100, 128, 200, 254, 255}))
	a, b := pick.Draw(t, "limA"), pick.Draw(t, "limB")
	if a > b {
		a, b = b, a
	}
	if strict && a == b {
		if b < 255 {
			b++
		} else {
			a--
		}
	}
	return a, b
}

// genFan draws a fan with its virtual hardware. The returned map is the *effective* PWM map the
// controller will work with (configured, or the one its sweep will measure on the quantiser).
func genFan(t *rapid.T, o fanOpts) (sim.FanSpec, map[int]int) {
	kinds := o.kinds
	if kinds == nil {
		kinds = []string{"hwmon", "hwmon", "hwmon", "file"}
	}
	f := sim.FanSpec{Kind: rapid.SampledFrom(kinds).Draw(t, "kind")}
	// script based (cmd) fans cost several process executions per cycle: a small, tier dependent share
	if o.kinds == nil && rare(t, "cmdFan", envInt("VERIF_CMD_SHARE", 1)) {
		f.Kind = "cmd"
	}
	if o.neverStop != nil {
		f.NeverStop = *o.neverStop
	} else {
		f.NeverStop = rapid.Bool().Draw(t, "neverStop")
	}
	f.OrigMode = rapid.SampledFrom([]int{0, 1, 2, 2, 3, 5}).Draw(t, "origMode")
	f.OrigPwm = rapid.IntRange(0, 255).Draw(t, "origPwm")
	if f.Kind == "hwmon" {
		f.NoEnable = rapid.IntRange(0, 9).Draw(t, "noEnable") == 0
		// hwmon fans always have an RPM input: fan2go only binds hwmon entries to detected
		// fanN_input features (internal/hwmon GetFans), so a pwm-only device is not configurable
		lo, hi := 0, 255
		if !o.fullLimits {
			lo, hi = genLimits(t, o.minLtMax)
		}
		switch rapid.IntRange(0, 2).Draw(t, "limitSource") {
		case 0: // configured
			f.MinPwm, f.MaxPwm = ip(lo), ip(hi)
			if rapid.Bool().Draw(t, "startCfg") {
				f.StartPwm = ip(rapid.IntRange(lo, hi).Draw(t, "start"))
				if rapid.IntRange(0, 3).Draw(t, "startAnywhere") == 0 {
					// nothing ties startPwm to the limits: below the minimum, above the maximum
					f.StartPwm = ip(rapid.IntRange(0, 255).Draw(t, "startAny"))
				}
			}
		case 1: // measured: rpm 0 below lo, rising until hi, flat above
			d := map[int]float64{}
			for i := 0; i <= 255; i++ {
				switch {
				case i < lo:
					d[i] = 0
				case i >= hi:
					d[i] = float64(100 + (hi-lo)*10)
				default:
					d[i] = float64(100 + (i-lo)*10)
				}
			}
			f.Measured = d
		default: // mixed: max configured, min measured
			f.MaxPwm = ip(hi)
			d := map[int]float64{}
			for i := 0; i <= 255; i++ {
				if i < lo {
					d[i] = 0
				} else {
					d[i] = float64(100 + i)
				}
			}
			f.Measured = d
		}
	} else if !o.alwaysRpm {
		f.NoRpm = rapid.IntRange(0, 4).Draw(t, "noRpm") == 0
	}
	if f.Kind == "file" && !f.NoRpm {
		f.TildeRpm = rapid.IntRange(0, 3).Draw(t, "tildeRpm") == 0
	}
	if f.Kind == "cmd" {
		o.noQuant = true // script based fans: plain integer store
	}
	// PWM map
	var eff map[int]int
	style := 0
	if !o.identity {
		style = rapid.IntRange(0, 4).Draw(t, "mapStyle")
	}
	switch style {
	case 0, 1: // identity, configured
		eff = identityMap()
		f.PwmMap = eff
	case 2: // device quantiser, automatic map measured by the controller's sweep
		if o.noQuant {
			eff = identityMap()
			f.PwmMap = eff
			break
		}
		q := rapid.SampledFrom([]int{2, 3, 5, 16, 51, 64, 128}).Draw(t, "quant")
		f.Quant = q
		eff = quantMap(q)
	case 3: // sparse user map
		n := rapid.IntRange(1, 12).Draw(t, "mapN")
		keys := rapid.SliceOfNDistinct(rapid.IntRange(0, 255), n, n, rapid.ID[int]).Draw(t, "mapKeys")
		sort.Ints(keys)
		vals := rapid.SliceOfN(rapid.IntRange(0, 255), n, n).Draw(t, "mapVals")
		if o.monotone {
			sort.Ints(vals)
		}
		eff = map[int]int{}
		for i, k := range keys {
			eff[k] = vals[i]
		}
		f.PwmMap = eff
	default: // constant map
		c := rapid.IntRange(0, 255).Draw(t, "mapConst")
		eff = map[int]int{0: c, 128: c, 255: c}
		f.PwmMap = eff
	}
	return f, eff
}

var extremeGains = []float64{0, 1e-3, -1e-3, 1, -1, 100, -100, 1e3, -1e3, 1e300, -1e300, math.MaxFloat64, 5e-324}

func genLoop(t *rapid.T, allowExtreme bool) sim.LoopSpec {
	switch rapid.IntRange(0, 3).Draw(t, "loopKind") {
	case 0:
		return sim.LoopSpec{Kind: "direct"}
	case 1:
		return sim.LoopSpec{Kind: "direct", MaxChange: rapid.OneOf(rapid.IntRange(1, 255), rapid.SampledFrom([]int{1, 2, 5, 10, 255})).Draw(t, "maxChange")}
	case 2:
		return sim.LoopSpec{Kind: "pid", P: 0.3, I: 0.02, D: 0.005}
	default:
		if allowExtreme {
			g := rapid.SampledFrom(extremeGains)
			return sim.LoopSpec{Kind: "pid", P: g.Draw(t, "p"), I: g.Draw(t, "i"), D: g.Draw(t, "d")}
		}
		g := rapid.Float64Range(-2, 2)
		return sim.LoopSpec{Kind: "pid", P: g.Draw(t, "p"), I: g.Draw(t, "i"), D: g.Draw(t, "d")}
	}
}

func genTick(t *rapid.T) int {
	return rapid.SampledFrom([]int{50, 100, 200, 200, 500, 1000, 2000}).Draw(t, "tickMs")
}

// allowedWrites computes { map[k] : k nearest supported input of some r in [lo,hi] }.
func allowedWrites(m map[int]int, lo, hi int) map[int]bool {
	sup := refSupported(m)
	out := map[int]bool{}
	for r := lo; r <= hi; r++ {
		for _, k := range refNear(sup, r) {
			out[m[k]] = true
		}
	}
	return out
}

func sortInts(a []int) { sort.Ints(a) }

// rare is true with probability about n/64. (rapid's integer generators are biased towards small
// values and bounds, so "IntRange(0,999) < k" is far more likely than k/1000; SampledFrom over a
// slice is close to uniform.)
func rare(t *rapid.T, label string, n int) bool {
	opts := make([]bool, 64)
	for i := 0; i < n && i < 64; i++ {
		opts[(7+i*11)%64] = true
	}
	return rapid.SampledFrom(opts).Draw(t, label)
}
