package props

import (
	"encoding/json"
	"fmt"
	"os"
	"path/filepath"
	"sort"
	"strings"
	"testing"

	"github.com/markusressel/fan2go/verifharness/sim"
	"github.com/pterm/pterm"
	"pgregory.net/rapid"
)

func TestMain(m *testing.M) {
	pterm.DisableOutput()
	pterm.DisableStyling()
	os.Unsetenv("DISPLAY") // ui.Notify* returns early
	code := m.Run()
	sim.CleanupWorkDir()
	os.Exit(code)
}

// verdict of one executed case
type verdict struct {
	vs         []sim.Violation
	nontrivial bool
	labels     []string
	outcome    any // optional: observed outcome, stored with samples / replays
}

func regressDir(id string) string {
	d := os.Getenv("VERIF_REGRESS")
	if d == "" {
		d = "/verif/regress"
	}
	return filepath.Join(d, id)
}

// runProperty is the common frame of all checks:
//   - VERIF_REPLAY=<file>: run that scenario only, print the verdict;
//   - otherwise replay regress/<ID>/*.json through the plain (library-free) path, then search
//     with rapid.
func runProperty[S any](t *testing.T, id string, gen func(*rapid.T) S, run func(*testing.T, S) verdict) {
	st := sim.NewStats(id)
	defer st.Flush()
	if p := os.Getenv("VERIF_REPLAY"); p != "" {
		var sc S
		if u := sim.ReplayUnit(p); u != "" && u != t.Name() {
			t.Skipf("replay belongs to %s", u)
		}
		if err := sim.LoadReplay(p, &sc); err != nil {
			t.Fatalf("cannot load replay: %v", err)
		}
		v := run(t, sc)
		b, _ := json.MarshalIndent(v.outcome, "", " ")
		fmt.Printf("REPLAY %s\noutcome: %s\n", p, b)
		fail := st.Judge(v.vs)
		for _, x := range v.vs {
			fmt.Printf("  violation %s\n", x)
		}
		st.Case(sc, v.nontrivial, v.labels...)
		if len(fail) > 0 {
			st.SaveReplay(t.Name(), sc, fail)
			t.Fatalf("%d violation(s)", len(fail))
		}
		fmt.Println("REPLAY-OK")
		return
	}
	files, _ := filepath.Glob(filepath.Join(regressDir(id), "*.json"))
	sort.Strings(files)
	for _, f := range files {
		if u := sim.ReplayUnit(f); u != "" && u != t.Name() {
			continue
		}
		var sc S
		if err := sim.LoadReplay(f, &sc); err != nil {
			t.Fatalf("regress file %s: %v", f, err)
		}
		v := run(t, sc)
		st.Label("regress")
		st.Case(sc, v.nontrivial, v.labels...)
		if fail := st.Judge(v.vs); len(fail) > 0 {
			st.SaveReplay(t.Name(), sc, fail)
			t.Fatalf("regress case %s fails: %v", filepath.Base(f), fail)
		}
	}
	if os.Getenv("VERIF_REGRESS_ONLY") != "" {
		return
	}
	rapid.Check(t, func(rt *rapid.T) {
		sc := gen(rt)
		sim.CaseFile(id, t.Name(), sc)
		v := run(t, sc)
		st.Case(withOutcome(sc, v), v.nontrivial, v.labels...)
		if fail := st.Judge(v.vs); len(fail) > 0 {
			st.SaveReplay(t.Name(), sc, fail)
			msgs := []string{}
			for _, x := range fail {
				msgs = append(msgs, x.String())
			}
			rt.Fatalf("property %s violated: %s", id, strings.Join(msgs, "; "))
		}
	})
}

// withOutcome pairs scenario and observed outcome for the evidence samples; the case's identity
// (hash) is still a function of the scenario alone because outcomes are deterministic.
func withOutcome(sc any, v verdict) any {
	if v.outcome == nil {
		return sc
	}
	return map[string]any{"scenario": sc, "outcome": v.outcome}
}

func ip(v int) *int { return &v }

func envInt(name string, def int) int {
	if s := os.Getenv(name); s != "" {
		var n int
		if _, err := fmt.Sscan(s, &n); err == nil {
			return n
		}
	}
	return def
}
