package props

// C04 - constant curve value: the request settles at one target, the same for every algorithm.
//
// Identity PWM map (device value == request), constant non-zero RPM (no stall logic).
//  tier 1  plain direct algorithm: S(cv) = request after one cycle; S(0)=min, S(255)=max,
//          non-decreasing, independent of the visiting order (metamorphic);
//  tier 2  direct + maxPwmChangePerCycle m: |r_{i+1}-r_i| <= m always; on a constant tail the
//          distance to S(cv) never grows, its sign never flips, and r == S(cv) from cycle
//          ceil(255/m)+2 on, S taken from a plain-direct twin (differential);
//  tier 3  default PID: within N_pid cycles the request stays within 1 of S(cv).

import (
	"fmt"
	"testing"

	"github.com/markusressel/fan2go/verifharness/sim"
	"pgregory.net/rapid"
)

const c04NPid = 600

type c04Scenario struct {
	Tier   int          `json:"tier"`
	Min    int          `json:"min"`
	Max    int          `json:"max"`
	Never  bool         `json:"neverStop"`
	Kind   string       `json:"kind"`
	Loop   sim.LoopSpec `json:"loop"`
	TickMs int          `json:"tickMs"`
	Prefix []sim.Step   `json:"prefix"`
	Cv     int          `json:"cv"`
	Tail   int          `json:"tail"`
	Order  []int        `json:"order,omitempty"` // tier 1: visiting order of curve values
}

func (sc c04Scenario) fan() sim.FanSpec {
	f := sim.FanSpec{Kind: "hwmon", NeverStop: sc.Never, MinPwm: ip(sc.Min), MaxPwm: ip(sc.Max), PwmMap: identityMap(),
		OrigMode: 2, OrigPwm: 90, RpmAvg0: 1000}
	return f
}

func (sc c04Scenario) loopScenario(loop sim.LoopSpec, steps []sim.Step) sim.LoopScenario {
	return sim.LoopScenario{Fan: sc.fan(), Loop: loop, TickMs: sc.TickMs, RpmPollMs: 1000, RpmWindow: 10,
		Law: sim.RpmLaw{Theta: 0, Rpm: 1000}, Steps: steps, Stop: sim.StopSpec{AtMs: -1}}
}

func genC04Limits(t *rapid.T) (int, int, bool) {
	never := rapid.IntRange(0, 4).Draw(t, "neverStop") > 0
	grid := []int{0, 16, 32, 48, 64, 80, 96, 112, 128, 144, 160, 176, 192, 208, 224, 240, 255}
	pick := rapid.OneOf(rapid.SampledFrom(grid), rapid.IntRange(0, 255))
	a, b := pick.Draw(t, "a"), pick.Draw(t, "b")
	if a > b {
		a, b = b, a
	}
	if a == b {
		if b < 255 {
			b++
		} else {
			a--
		}
	}
	if !never {
		// without neverStop the effective minimum is 0 whatever is configured
		return a, b, false
	}
	return a, b, true
}

func genPrefix(t *rapid.T, maxLen int, allowHold bool, tickMs int) []sim.Step {
	n := rapid.IntRange(0, maxLen).Draw(t, "prefixLen")
	var steps []sim.Step
	cv := rapid.OneOf(rapid.IntRange(0, 255), rapid.SampledFrom([]int{0, 255, 0, 255, 128}))
	holds := 0
	maxCycles := envInt("VERIF_C04_MAXHOLD", 120000)
	for i := 0; i < n; i++ {
		s := sim.Step{Curve: cv.Draw(t, "pcv")}
		if allowHold && holds < 2 && rapid.IntRange(0, 11).Draw(t, "holdP") == 0 {
			// idle for up to 6 virtual hours at 0 or 255
			holds++
			s.Curve = rapid.SampledFrom([]int{0, 255}).Draw(t, "idleCv")
			hours := rapid.SampledFrom([]float64{0.05, 0.5, 1, 1, 3, 6}).Draw(t, "idleHours")
			s.Hold = int(hours * 3600 * 1000 / float64(tickMs))
			if s.Hold > maxCycles {
				s.Hold = maxCycles
			}
		}
		steps = append(steps, s)
	}
	return steps
}

func genC04Direct(t *rapid.T) c04Scenario {
	mn, mx, never := genC04Limits(t)
	order := rapid.Permutation(seq(0, 255)).Draw(t, "order")
	return c04Scenario{Tier: 1, Min: mn, Max: mx, Never: never, Loop: sim.LoopSpec{Kind: "direct"}, TickMs: 100, Order: order}
}

func seq(a, b int) []int {
	var s []int
	for i := a; i <= b; i++ {
		s = append(s, i)
	}
	return s
}

func effMin(sc c04Scenario) int {
	if sc.Never {
		return sc.Min
	}
	return 0
}

func runC04Direct(t *testing.T, sc c04Scenario) verdict {
	var steps []sim.Step
	for _, cv := range sc.Order {
		steps = append(steps, sim.Step{Curve: cv})
	}
	for cv := 0; cv <= 255; cv++ { // second pass in ascending order
		steps = append(steps, sim.Step{Curve: cv})
	}
	res := sim.RunLoop(t, sc.loopScenario(sc.Loop, steps))
	var vs []sim.Violation
	if len(res.Obs) != len(steps) {
		return verdict{vs: []sim.Violation{{Key: "harness", Msg: fmt.Sprintf("expected %d cycles, saw %d (%s)", len(steps), len(res.Obs), res.RunErr)}}}
	}
	S := map[int]int{}
	for i, cv := range sc.Order {
		S[cv] = res.Obs[i].Pwm
	}
	for cv := 0; cv <= 255; cv++ {
		got := res.Obs[len(sc.Order)+cv].Pwm
		if want, ok := S[cv]; ok && want != got {
			vs = append(vs, sim.Violation{Key: "direct-order-dependent", Msg: fmt.Sprintf("curve %d gave request %d in random order and %d in ascending order", cv, want, got)})
			break
		}
		S[cv] = got
	}
	if S[0] != effMin(sc) {
		vs = append(vs, sim.Violation{Key: "direct-S0-not-min", Msg: fmt.Sprintf("curve 0 gives %d, minimum is %d", S[0], effMin(sc))})
	}
	if S[255] != sc.Max {
		vs = append(vs, sim.Violation{Key: "direct-S255-not-max", Msg: fmt.Sprintf("curve 255 gives %d, maximum is %d", S[255], sc.Max)})
	}
	for cv := 1; cv <= 255; cv++ {
		if S[cv] < S[cv-1] {
			vs = append(vs, sim.Violation{Key: "direct-S-decreasing", Msg: fmt.Sprintf("S(%d)=%d < S(%d)=%d", cv, S[cv], cv-1, S[cv-1])})
			break
		}
	}
	return verdict{vs: vs, nontrivial: !(effMin(sc) == 0 && sc.Max == 255), labels: []string{"tier1-direct"},
		outcome: map[string]any{"S0": S[0], "S128": S[128], "S255": S[255]}}
}

func TestC04Direct(t *testing.T) { runProperty(t, "C04", genC04Direct, runC04Direct) }

// ---- tier 2 -------------------------------------------------------------------------------------

func genC04Rate(t *rapid.T) c04Scenario {
	mn, mx, never := genC04Limits(t)
	m := rapid.OneOf(rapid.IntRange(1, 255), rapid.SampledFrom([]int{1, 2, 3, 5, 10, 20, 50, 254, 255})).Draw(t, "m")
	// the limit is per cycle, whatever the time between two cycles: controllerAdjustmentTickRate has no upper bound
	tick := rapid.SampledFrom([]int{100, 100, 100, 50, 200, 1000, 2000, 5500, 10000, 30000}).Draw(t, "tickMs")
	sc := c04Scenario{Tier: 2, Min: mn, Max: mx, Never: never, Loop: sim.LoopSpec{Kind: "direct", MaxChange: m}, TickMs: tick}
	sc.Prefix = genPrefix(t, 60, false, tick)
	if len(sc.Prefix) == 0 {
		sc.Prefix = []sim.Step{{Curve: rapid.IntRange(0, 255).Draw(t, "cv0")}}
	}
	// drive the prefix to a chosen starting request: hold its last value long enough
	sc.Prefix[len(sc.Prefix)-1].Hold = rapid.SampledFrom([]int{0, 0, 300}).Draw(t, "settlePrefix")
	sc.Cv = rapid.OneOf(rapid.IntRange(0, 255), rapid.SampledFrom([]int{0, 255})).Draw(t, "cv")
	sc.Tail = (255+m-1)/m + 5
	return sc
}

func runC04Rate(t *testing.T, sc c04Scenario) verdict {
	m := sc.Loop.MaxChange
	steps := append([]sim.Step{}, sc.Prefix...)
	for i := 0; i < sc.Tail; i++ {
		steps = append(steps, sim.Step{Curve: sc.Cv})
	}
	res := sim.RunLoop(t, sc.loopScenario(sc.Loop, steps))
	twin := sim.RunLoop(t, sc.loopScenario(sim.LoopSpec{Kind: "direct"}, []sim.Step{{Curve: sc.Cv}, {Curve: sc.Cv}}))
	if len(res.Obs) != len(steps) || len(twin.Obs) != 2 {
		return verdict{vs: []sim.Violation{{Key: "harness", Msg: fmt.Sprintf("expected %d cycles, saw %d (%s)", len(steps), len(res.Obs), res.RunErr)}}}
	}
	S := twin.Obs[1].Pwm
	var vs []sim.Violation
	add := func(k, msg string) {
		if len(vs) < 3 {
			vs = append(vs, sim.Violation{Key: k, Msg: msg})
		}
	}
	var rs []int
	for _, o := range res.Obs {
		rs = append(rs, o.Pwm)
	}
	// rate limit over the whole history (a Hold step aggregates several cycles: skip its boundary)
	for i := 1; i < len(rs); i++ {
		if i < len(sc.Prefix) && sc.Prefix[i].Hold > 0 {
			continue
		}
		if d := abs(rs[i] - rs[i-1]); d > m {
			add("rate-limit-exceeded", fmt.Sprintf("cycle %d: request moved %d -> %d, limit %d", i, rs[i-1], rs[i], m))
		}
	}
	p := len(sc.Prefix)
	start := rs[p-1]
	tailR := rs[p:]
	prevDist := abs(start - S)
	prevSign := sign(start - S)
	for i, r := range tailR {
		d, sg := abs(r-S), sign(r-S)
		if d > prevDist {
			add("moves-away-from-steady-value", fmt.Sprintf("tail cycle %d: request %d, steady value %d, previous distance %d", i, r, S, prevDist))
		}
		if sg != 0 && prevSign != 0 && sg != prevSign {
			add("overshoots-steady-value", fmt.Sprintf("tail cycle %d: request %d crossed the steady value %d", i, r, S))
		}
		if i >= (255+m-1)/m+2 && r != S {
			add("does-not-settle-at-direct-value", fmt.Sprintf("tail cycle %d (limit %d): request %d, plain direct algorithm gives %d; tail %v", i, m, r, S, tail(tailR, 8)))
		}
		prevDist, prevSign = d, sg
	}
	nt := !(effMin(sc) == 0 && sc.Max == 255) && abs(start-S) >= 2*m
	return verdict{vs: vs, nontrivial: nt, labels: []string{"tier2-rate", fmt.Sprintf("tier2-tick:%d", sc.TickMs)}, outcome: map[string]any{"start": start, "S": S, "tail": tail(tailR, 6)}}
}

func abs(a int) int {
	if a < 0 {
		return -a
	}
	return a
}
func sign(a int) int {
	if a < 0 {
		return -1
	}
	if a > 0 {
		return 1
	}
	return 0
}

func TestC04Rate(t *testing.T) { runProperty(t, "C04", genC04Rate, runC04Rate) }

// ---- tier 3 -------------------------------------------------------------------------------------

func genC04Pid(t *rapid.T) c04Scenario {
	mn, mx, never := genC04Limits(t)
	tick := rapid.SampledFrom([]int{50, 100, 200, 200, 500, 1000, 2000}).Draw(t, "tickMs")
	sc := c04Scenario{Tier: 3, Min: mn, Max: mx, Never: never, Loop: sim.LoopSpec{Kind: "pid", P: 0.3, I: 0.02, D: 0.005}, TickMs: tick}
	sc.Prefix = genPrefix(t, 40, true, tick)
	if len(sc.Prefix) == 0 {
		sc.Prefix = []sim.Step{{Curve: rapid.IntRange(0, 255).Draw(t, "cv0")}}
	}
	sc.Cv = rapid.OneOf(rapid.IntRange(0, 255), rapid.SampledFrom([]int{0, 1, 2, 3, 252, 253, 254, 255})).Draw(t, "cv")
	sc.Tail = c04NPid + 100
	return sc
}

func runC04Pid(t *testing.T, sc c04Scenario) verdict {
	steps := append([]sim.Step{}, sc.Prefix...)
	for i := 0; i < sc.Tail; i++ {
		steps = append(steps, sim.Step{Curve: sc.Cv})
	}
	res := sim.RunLoop(t, sc.loopScenario(sc.Loop, steps))
	twin := sim.RunLoop(t, sc.loopScenario(sim.LoopSpec{Kind: "direct"}, []sim.Step{{Curve: sc.Cv}, {Curve: sc.Cv}}))
	if len(res.Obs) != len(steps) || len(twin.Obs) != 2 {
		return verdict{vs: []sim.Violation{{Key: "harness", Msg: fmt.Sprintf("expected %d cycles, saw %d (%s)", len(steps), len(res.Obs), res.RunErr)}}}
	}
	S := twin.Obs[1].Pwm
	p := len(sc.Prefix)
	var tailR []int
	for _, o := range res.Obs[p:] {
		tailR = append(tailR, o.Pwm)
	}
	// settle index: first i such that all later requests are within 1 of S
	settle := len(tailR)
	for i := len(tailR) - 1; i >= 0; i-- {
		if abs(tailR[i]-S) > 1 {
			break
		}
		settle = i
	}
	var vs []sim.Violation
	if settle > c04NPid {
		vs = append(vs, sim.Violation{Key: "pid-does-not-settle", Msg: fmt.Sprintf("limits [%d,%d], curve %d: direct algorithm gives %d, default PID after %d cycles at tick %dms is at %v (start %d)",
			effMin(sc), sc.Max, sc.Cv, S, len(tailR), sc.TickMs, tail(tailR, 6), res.Obs[p-1].Pwm)})
	}
	longIdle := false
	for _, s := range sc.Prefix {
		if s.Hold*sc.TickMs >= 3600*1000 {
			longIdle = true
		}
	}
	labels := []string{"tier3-pid", fmt.Sprintf("tick:%d", sc.TickMs)}
	if longIdle {
		labels = append(labels, "idle>=1h")
	}
	nt := !(effMin(sc) == 0 && sc.Max == 255) && abs(res.Obs[p-1].Pwm-S) >= 20
	return verdict{vs: vs, nontrivial: nt, labels: labels, outcome: map[string]any{"S": S, "settledAfter": settle, "start": res.Obs[p-1].Pwm}}
}

func TestC04Pid(t *testing.T) { runProperty(t, "C04", genC04Pid, runC04Pid) }
