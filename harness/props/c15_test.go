package props

// C15 - stored characterisation is reused; fans are analysed once.
//
// History of start / stop / `fan reset` / `fan init` on one bbolt file; every start is a fresh
// fan object + fresh controller + fresh Persistence (what a new process is). Observed: the PWM
// device's write log before the curve's first evaluation, with virtual timestamps.
//   sweep          := a run of >= 8 writes each < 100 ms after the previous one
//   rpmMeasurement := >= 3 writes each >= 1 s after the previous one
//  (i)   stored data  => no sweep, no rpmMeasurement, regulation starts within the fixed start-up delay
//  (ii)  configured pwmMap => never a sweep; regulation writes are images of that map
//  (iii) hwmon fan with minPwm and maxPwm configured => never an rpmMeasurement

import (
	"fmt"
	"os"
	"path/filepath"
	"testing"
	"time"

	"github.com/markusressel/fan2go/internal/configuration"
	"github.com/markusressel/fan2go/internal/fans"
	"github.com/markusressel/fan2go/internal/persistence"
	"github.com/markusressel/fan2go/verifharness/sim"
	"pgregory.net/rapid"
)

type c15Op struct {
	Op     string      `json:"op"` // start | reset | init | editMap
	Cycles int         `json:"cycles,omitempty"`
	Map    map[int]int `json:"map,omitempty"` // editMap: the pwmMap the user puts into the configuration (nil: removes it)
}

type c15Scenario struct {
	Fan    sim.FanSpec `json:"fan"`
	TickMs int         `json:"tickMs"`
	Ops    []c15Op     `json:"ops"`
	// DeadTacho: the RPM input reads 0 whatever the PWM (broken tacho wire): the measured curve is all zero
	DeadTacho bool `json:"deadTacho,omitempty"`
}

func genC15(t *rapid.T) c15Scenario {
	f := sim.FanSpec{Kind: rapid.SampledFrom([]string{"hwmon", "hwmon", "file"}).Draw(t, "kind"), OrigMode: 2, OrigPwm: rapid.IntRange(0, 255).Draw(t, "origPwm"), NoStored: true}
	// script based (cmd) fans: a small share (each access is a process), always with a configured map -
	// the case in which fan2go must not sweep them
	cmdFan := rare(t, "cmdFan", 4)
	if cmdFan {
		f.Kind = "cmd"
	}
	if f.Kind == "file" || f.Kind == "cmd" {
		f.NoRpm = rapid.Bool().Draw(t, "noRpm")
	}
	mapCase := rapid.IntRange(0, 3).Draw(t, "map")
	if cmdFan {
		mapCase %= 2
	}
	switch mapCase {
	case 0:
		f.PwmMap = identityMap()
	case 1:
		n := rapid.IntRange(2, 8).Draw(t, "mapN")
		keys := rapid.SliceOfNDistinct(rapid.IntRange(0, 255), n, n, rapid.ID[int]).Draw(t, "mapKeys")
		m := map[int]int{}
		for _, k := range keys {
			m[k] = k // outputs are their own keys: the fan reads back what was written
		}
		f.PwmMap = m
	case 2:
		f.Quant = rapid.SampledFrom([]int{2, 5, 16, 51}).Draw(t, "quant")
	default:
	}
	if f.Kind == "hwmon" {
		if rapid.Bool().Draw(t, "limits") {
			f.MinPwm, f.MaxPwm = ip(rapid.IntRange(0, 100).Draw(t, "min")), ip(rapid.IntRange(101, 255).Draw(t, "max"))
		}
		f.NeverStop = rapid.Bool().Draw(t, "neverStop")
	}
	sc := c15Scenario{Fan: f, TickMs: rapid.SampledFrom([]int{100, 200, 1000}).Draw(t, "tickMs")}
	sc.DeadTacho = f.Kind == "hwmon" && !f.NeverStop && rapid.IntRange(0, 7).Draw(t, "deadTacho") == 0
	n := rapid.IntRange(2, 8).Draw(t, "nOps")
	sc.Ops = append(sc.Ops, c15Op{Op: "start", Cycles: rapid.IntRange(1, 5).Draw(t, "k")})
	for len(sc.Ops) < n {
		switch rapid.IntRange(0, 6).Draw(t, "op") {
		case 0:
			sc.Ops = append(sc.Ops, c15Op{Op: "reset"})
		case 1:
			sc.Ops = append(sc.Ops, c15Op{Op: "init"})
		case 2:
			// the user edits the configuration between two runs: adds, changes or removes the pwmMap
			var m map[int]int
			if rapid.IntRange(0, 3).Draw(t, "removeMap") > 0 {
				n := rapid.IntRange(2, 6).Draw(t, "editN")
				keys := rapid.SliceOfNDistinct(rapid.IntRange(0, 255), n, n, rapid.ID[int]).Draw(t, "editKeys")
				m = map[int]int{}
				for _, k := range keys {
					m[k] = k
				}
			}
			if f.Quant <= 1 {
				sc.Ops = append(sc.Ops, c15Op{Op: "editMap", Map: m})
			}
		default:
			sc.Ops = append(sc.Ops, c15Op{Op: "start", Cycles: rapid.IntRange(1, 5).Draw(t, "k")})
		}
	}
	return sc
}

func classifyWrites(ws []sim.WriteRec) (sweep, measurement bool, distinct int) {
	run, slow := 1, 1
	seen := map[int]bool{}
	for i, w := range ws {
		seen[w.V] = true
		if i == 0 {
			continue
		}
		gap := w.T - ws[i-1].T
		if gap < 100*time.Millisecond {
			run++
			if run >= 8 {
				sweep = true
			}
		} else {
			run = 1
		}
		if gap >= time.Second {
			slow++
			if slow >= 3 {
				measurement = true
			}
		}
	}
	return sweep, measurement, len(seen)
}

type c15Start struct {
	Op          int   `json:"op"`
	Stored      bool  `json:"stored"`
	StoredMap   bool  `json:"storedMap"`
	PreWrites   int   `json:"preWrites"`
	Distinct    int   `json:"distinct"`
	Sweep       bool  `json:"sweep"`
	Measurement bool  `json:"measurement"`
	FirstEvalMs int64 `json:"firstEvalMs"`
}

func runC15(t *testing.T, sc c15Scenario) verdict {
	dbPath := filepath.Join(sim.WorkDir(), "c15.db")
	_ = os.Remove(dbPath)
	defer os.Remove(dbPath)
	var vs []sim.Violation
	add := func(k, m string) {
		if len(vs) < 4 {
			vs = append(vs, sim.Violation{Key: k, Msg: m})
		}
	}
	stored, storedMap, edited := false, false, false // stored: RPM curve data in the database; storedMap: a PWM map in the database
	law := sim.RpmLaw{Theta: 0, Rpm: 1200}
	if sc.DeadTacho {
		law.Rpm = 0
	}
	spec := sc.Fan
	var starts []c15Start
	nt := false
	limitsCfg := spec.Kind == "hwmon" && spec.MinPwm != nil && spec.MaxPwm != nil
	for i, op := range sc.Ops {
		pers := persistence.NewPersistence(dbPath) // a new process opens the database afresh
		switch op.Op {
		case "editMap":
			spec.PwmMap = op.Map
			edited = true
		case "reset":
			// exactly what cmd/fan/reset.go does
			fan, _ := fans.NewFan(configuration.FanConfig{ID: "f0", HwMon: &configuration.HwMonFanConfig{}})
			if err := pers.DeleteFanPwmData(fan); err != nil {
				add("reset-failed", err.Error())
			}
			if err := pers.DeleteFanPwmMap("f0"); err != nil {
				add("reset-failed", err.Error())
			}
			stored, storedMap = false, false
		case "init":
			_, final, err := sim.RunInit(t, spec, law, pers)
			if err != nil {
				add("init-failed", err.Error())
			}
			spec.OrigPwm = final
			stored, storedMap = true, true // the initialization sequence stores the map it used and (with an RPM input) the curve
		default:
			steps := make([]sim.Step, op.Cycles)
			for j := range steps {
				steps[j] = sim.Step{Curve: 40 + 50*j}
			}
			ls := sim.LoopScenario{Fan: spec, Loop: sim.LoopSpec{Kind: "direct"}, TickMs: sc.TickMs, RpmPollMs: 1000, RpmWindow: 10, Law: law,
				Steps: steps, Stop: sim.StopSpec{AtMs: -1}}
			res := sim.RunLoopWith(t, ls, pers)
			if !res.Started {
				add("start-failed", fmt.Sprintf("op %d: regulation never began: %s", i, res.RunErr))
				return verdict{vs: vs}
			}
			sweep, meas, distinct := classifyWrites(res.PreWrites)
			starts = append(starts, c15Start{Op: i, Stored: stored, StoredMap: storedMap, PreWrites: len(res.PreWrites), Distinct: distinct, Sweep: sweep, Measurement: meas, FirstEvalMs: res.FirstEval.Milliseconds()})
			if stored {
				nt = true
				// a sweep is only excused when no PWM map is stored (earlier runs used a configured map,
				// which is not stored) and none is configured now
				if sweep && (storedMap || spec.PwmMap != nil) {
					add("stored-pwm-map-ignored", fmt.Sprintf("op %d: start with stored data swept the fan again (%d writes, %d distinct values before regulation)", i, len(res.PreWrites), distinct))
				}
				if meas {
					add("stored-rpm-curve-ignored", fmt.Sprintf("op %d: start with stored data measured the RPM curve again (%d writes before regulation)", i, len(res.PreWrites)))
				}
				bound := 2*time.Second + 2*200*time.Millisecond + time.Second + time.Duration(sc.TickMs)*time.Millisecond + 500*time.Millisecond
				if res.FirstEval > bound && !sweep && !meas && (storedMap || spec.PwmMap != nil) {
					add("slow-start-with-stored-data", fmt.Sprintf("op %d: regulation began after %v, start-up delay is %v", i, res.FirstEval, bound))
				}
			}
			if spec.PwmMap != nil {
				nt = true
				if sweep {
					add("configured-map-but-sweep", fmt.Sprintf("op %d: pwmMap is configured, yet the fan was swept (%d writes before regulation)", i, len(res.PreWrites)))
				}
				img := map[int]bool{}
				for _, v := range spec.PwmMap {
					img[v] = true
				}
				for _, o := range res.Obs {
					for _, w := range o.Writes {
						if !img[w.V] {
							add("write-outside-configured-map", fmt.Sprintf("op %d: wrote %d which is no output of the configured pwmMap", i, w.V))
						}
					}
				}
			}
			if limitsCfg {
				nt = true
				if meas && !stored {
					add("configured-limits-do-not-skip-analysis", fmt.Sprintf("op %d: minPwm and maxPwm are configured, yet the RPM curve was measured (%d writes before regulation, regulation began after %v)", i, len(res.PreWrites), res.FirstEval))
				}
			}
			spec.OrigPwm = res.FinalPwm
			spec.OrigMode = 2
			if (spec.Kind == "hwmon" && !stored) || spec.PwmMap == nil {
				storedMap = true // initialization sequence of an unknown hwmon fan, or an automatically computed map
			}
			stored = true
		}
	}
	labels := []string{"kind:" + sc.Fan.Kind}
	if sc.Fan.PwmMap != nil {
		labels = append(labels, "configured-map")
	}
	if limitsCfg {
		labels = append(labels, "configured-limits")
	}
	for _, s := range starts {
		if s.Stored {
			labels = append(labels, "start-with-stored-data")
			break
		}
	}
	if edited {
		labels = append(labels, "pwmMap-edited-between-runs")
	}
	return verdict{vs: vs, nontrivial: nt, labels: labels, outcome: starts}
}

func TestC15(t *testing.T) { runProperty(t, "C15", genC15, runC15) }
