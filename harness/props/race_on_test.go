//go:build race

package props

const raceEnabled = true
