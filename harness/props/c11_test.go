package props

// C11 - a configuration that validates can be run.
//
// An abstract configuration (plus injected structural defects) is rendered to YAML text with
// randomised but equivalent spelling and taken through the real path: file on disk -> viper ->
// configuration.LoadConfig -> configuration.Validate(path).
//  (a) accept  =>  the abstract value has no structural defect (independent scan / DFS);
//  (b) accept  =>  sensors, curves and fans can be instantiated with the real constructors and every
//                  curve evaluated for 5 sensor states without panic (no error for linear/function
//                  curves over readable sensors) and without endless recursion;
//  (c) no defect and only documented forms  =>  accept.

import (
	"fmt"
	"os"
	"os/exec"
	"path/filepath"
	"sort"
	"strings"
	"testing"

	"github.com/markusressel/fan2go/internal"
	"github.com/markusressel/fan2go/internal/configuration"
	"github.com/markusressel/fan2go/internal/curves"
	"github.com/markusressel/fan2go/internal/fans"
	"github.com/markusressel/fan2go/internal/sensors"
	"github.com/markusressel/fan2go/verifharness/sim"
	"github.com/spf13/viper"
	"pgregory.net/rapid"
)

type c11Sensor struct {
	Id       string   `json:"id"`
	Backends []string `json:"backends"` // normally one of hwmon | file | cmd
}

type c11Curve struct {
	Id        string     `json:"id"`
	Kinds     []string   `json:"kinds"` // normally one of linear | pid | function
	Sensor    string     `json:"sensor,omitempty"`
	StepsForm string     `json:"stepsForm,omitempty"` // "" (min/max) | list | map | emptyList | emptyMap | single
	Steps     []stepPair `json:"steps,omitempty"`
	Min       int        `json:"min,omitempty"`
	Max       int        `json:"max,omitempty"`
	FnType    string     `json:"fnType,omitempty"`
	Members   []string   `json:"members"`
	PID       [4]float64 `json:"pid,omitempty"` // setPoint p i d
}

type c11Fan struct {
	Id        string      `json:"id"`
	Backends  []string    `json:"backends"`
	Curve     string      `json:"curve"`
	ByIndex   bool        `json:"byIndex,omitempty"`
	PwmCh     int         `json:"pwmChannel,omitempty"`
	Algo      string      `json:"algo,omitempty"` // "" | direct | pid | directObj | pidObj
	MaxChange int         `json:"maxChange,omitempty"`
	NeverStop bool        `json:"neverStop,omitempty"`
	Limits    [3]int      `json:"limits,omitempty"` // min start max; -1 = absent
	PwmMap    map[int]int `json:"pwmMap,omitempty"`
	NoRpm     bool        `json:"noRpm,omitempty"`
}

type c11Scenario struct {
	// CurveOrder: the order in which the curves appear in the file (a function curve may be listed
	// before its members; nothing in the documentation forbids forward references)
	CurveOrder []int       `json:"curveOrder,omitempty"`
	Sensors    []c11Sensor `json:"sensors"`
	Curves     []c11Curve  `json:"curves"`
	Fans       []c11Fan    `json:"fans"`
	Defects    []string    `json:"defects"`
	LowerKeys  bool        `json:"lowerKeys,omitempty"`
	Flow       bool        `json:"flow,omitempty"`
	Quote      int         `json:"quote,omitempty"`
}

var c11Ids = []string{"cpu", "gpu", "case_avg", "m2-ssd", "a", "b", "c", "d", "front", "rear", "x1", "x2"}

func genC11(t *rapid.T) c11Scenario {
	sc := c11Scenario{LowerKeys: rapid.IntRange(0, 3).Draw(t, "lower") == 0, Flow: rapid.Bool().Draw(t, "flow"), Quote: rapid.IntRange(0, 2).Draw(t, "quote")}
	ids := rapid.Permutation(c11Ids).Draw(t, "ids")
	take := func() string { id := ids[0]; ids = ids[1:]; return id }
	ns := rapid.IntRange(1, 3).Draw(t, "nSensors")
	for i := 0; i < ns; i++ {
		sc.Sensors = append(sc.Sensors, c11Sensor{Id: "s_" + take(), Backends: []string{rapid.SampledFrom([]string{"hwmon", "file", "cmd"}).Draw(t, "sBackend")}})
	}
	sens := func() string { return sc.Sensors[rapid.IntRange(0, len(sc.Sensors)-1).Draw(t, "sensRef")].Id }
	nc := rapid.IntRange(1, 8).Draw(t, "nCurves")
	for i := 0; i < nc; i++ {
		c := c11Curve{Id: "c_" + fmt.Sprint(i)}
		kind := rapid.SampledFrom([]string{"linear", "linear", "pid", "function", "function"}).Draw(t, "cKind")
		if i == 0 && kind == "function" {
			kind = "linear"
		}
		c.Kinds = []string{kind}
		switch kind {
		case "linear":
			c.Sensor = sens()
			c.StepsForm = rapid.SampledFrom([]string{"", "", "list", "list", "map", "single", "emptyList", "emptyMap", "emptyListMinMax", "listMinMax"}).Draw(t, "stepsForm")
			switch c.StepsForm {
			case "", "emptyListMinMax", "listMinMax":
				c.Min = rapid.IntRange(0, 60).Draw(t, "min")
				c.Max = rapid.IntRange(c.Min+1, 100).Draw(t, "max")
				if c.StepsForm == "listMinMax" {
					for _, tp := range []int{c.Min, c.Max} {
						c.Steps = append(c.Steps, stepPair{tp, float64(rapid.IntRange(0, 255).Draw(t, "speed"))})
					}
				}
			case "list", "map", "single":
				n := rapid.IntRange(2, 5).Draw(t, "nSteps")
				if c.StepsForm == "single" {
					n = 1
				}
				temps := rapid.SliceOfNDistinct(rapid.IntRange(0, 100), n, n, rapid.ID[int]).Draw(t, "temps")
				sort.Ints(temps)
				for _, tp := range temps {
					c.Steps = append(c.Steps, stepPair{tp, float64(rapid.IntRange(0, 255).Draw(t, "speed"))})
				}
			}
		case "pid":
			c.Sensor = sens()
			c.PID = [4]float64{float64(rapid.IntRange(30, 80).Draw(t, "setPoint")), -0.05, -0.005, -0.005}
		default:
			c.FnType = rapid.SampledFrom(fnAll).Draw(t, "fnType")
			nm := rapid.SampledFrom([]int{0, 1, 2, 2, 3, 6}).Draw(t, "nMembers")
			for m := 0; m < nm; m++ {
				c.Members = append(c.Members, sc.Curves[rapid.IntRange(0, i-1).Draw(t, "member")].Id) // earlier curves only: a DAG
			}
		}
		sc.Curves = append(sc.Curves, c)
	}
	nf := rapid.IntRange(1, 3).Draw(t, "nFans")
	for i := 0; i < nf; i++ {
		f := c11Fan{Id: "f_" + take(), Backends: []string{rapid.SampledFrom([]string{"hwmon", "file", "cmd"}).Draw(t, "fBackend")},
			Curve: sc.Curves[rapid.IntRange(0, nc-1).Draw(t, "fanCurve")].Id, ByIndex: rapid.Bool().Draw(t, "byIndex"),
			Algo: rapid.SampledFrom([]string{"", "direct", "pid", "directObj", "pidObj"}).Draw(t, "algo"), MaxChange: rapid.IntRange(1, 50).Draw(t, "maxChange"),
			NeverStop: rapid.Bool().Draw(t, "neverStop"), Limits: [3]int{-1, -1, -1}, NoRpm: rapid.Bool().Draw(t, "noRpm")}
		if rapid.Bool().Draw(t, "pwmCh") {
			f.PwmCh = rapid.IntRange(1, 5).Draw(t, "pwmChannel")
		}
		if rapid.Bool().Draw(t, "limits") {
			f.Limits = [3]int{30, 40, 250}
		}
		if rapid.Bool().Draw(t, "pwmMap") {
			f.PwmMap = map[int]int{0: 0, 64: 128, 192: 255}
		}
		sc.Fans = append(sc.Fans, f)
	}
	// ---- injected structural defects
	nd := rapid.SampledFrom([]int{0, 0, 0, 1, 1, 2}).Draw(t, "nDefects")
	for d := 0; d < nd; d++ {
		kind := rapid.SampledFrom([]string{"dupFan", "dupSensor", "dupCurve", "noBackendFan", "twoBackendsFan", "noBackendSensor", "twoBackendsSensor", "noKindCurve", "twoKindsCurve",
			"danglingSensor", "danglingMember", "danglingFanCurve", "selfRef", "cycle", "cycle", "badFnType", "fanNoCurve"}).Draw(t, "defect")
		switch kind {
		case "dupFan":
			sc.Fans = append(sc.Fans, sc.Fans[0])
		case "dupSensor":
			sc.Sensors = append(sc.Sensors, sc.Sensors[rapid.IntRange(0, len(sc.Sensors)-1).Draw(t, "dupS")])
		case "dupCurve":
			sc.Curves = append(sc.Curves, sc.Curves[rapid.IntRange(0, len(sc.Curves)-1).Draw(t, "dupC")])
		case "noBackendFan":
			sc.Fans[0].Backends = nil
		case "twoBackendsFan":
			sc.Fans[0].Backends = []string{"hwmon", "file"}
		case "noBackendSensor":
			sc.Sensors[0].Backends = nil
		case "twoBackendsSensor":
			sc.Sensors[0].Backends = []string{"file", "cmd"}
		case "noKindCurve":
			sc.Curves[0].Kinds = nil
		case "twoKindsCurve":
			c := &sc.Curves[0]
			c.Kinds = []string{"linear", "pid"}
			c.PID = [4]float64{50, -0.05, -0.005, -0.005}
		case "danglingSensor":
			for i := range sc.Curves {
				if sc.Curves[i].Sensor != "" {
					sc.Curves[i].Sensor = c11NearMiss(t, sc.Curves[i].Sensor, "s_nowhere")
					break
				}
			}
		case "danglingMember":
			fn := c11PickFn(t, &sc)
			fn.Members = append(fn.Members, c11NearMiss(t, sc.Curves[0].Id, "c_nowhere"))
		case "danglingFanCurve":
			sc.Fans[0].Curve = c11NearMiss(t, sc.Fans[0].Curve, "c_nowhere")
		case "selfRef":
			fn := c11PickFn(t, &sc)
			fn.Members = append(fn.Members, fn.Id)
		case "cycle":
			// a cycle of length 2..8 over function curves (existing ones are re-used, missing ones added)
			l := rapid.IntRange(2, 8).Draw(t, "cycleLen")
			var ring []*c11Curve
			// function curves outside the cycle that lead into it, declared before every member of the
			// cycle (a chain of up to two): a walk started there reaches the cycle without closing on itself
			nEntry := rapid.SampledFrom([]int{0, 0, 1, 1, 2}).Draw(t, "ringEntries")
			entryBase := len(sc.Curves)
			for i := 0; i < nEntry; i++ {
				sc.Curves = append(sc.Curves, c11Curve{Id: fmt.Sprintf("entry%d_%d", d, i), Kinds: []string{"function"}, FnType: rapid.SampledFrom(fnAll).Draw(t, "entryFn")})
			}
			base := len(sc.Curves)
			for i := 0; i < l; i++ {
				sc.Curves = append(sc.Curves, c11Curve{Id: fmt.Sprintf("ring%d_%d", d, i), Kinds: []string{"function"}, FnType: rapid.SampledFrom(fnAll).Draw(t, "ringFn")})
			}
			for i := 0; i < l; i++ {
				ring = append(ring, &sc.Curves[base+i])
			}
			for i := range ring {
				ring[i].Members = append(ring[i].Members, ring[(i+1)%l].Id)
				if rapid.Bool().Draw(t, "ringLeaf") {
					ring[i].Members = append(ring[i].Members, sc.Curves[0].Id)
				}
			}
			for i := 0; i < nEntry; i++ {
				e := &sc.Curves[entryBase+i]
				if i+1 < nEntry {
					e.Members = append(e.Members, sc.Curves[entryBase+i+1].Id)
				} else {
					e.Members = append(e.Members, ring[rapid.IntRange(0, l-1).Draw(t, "entryInto")].Id)
				}
				if rapid.Bool().Draw(t, "entryLeaf") {
					e.Members = append(e.Members, sc.Curves[0].Id)
				}
			}
			switch rapid.IntRange(0, 2).Draw(t, "ringUsed") {
			case 0:
				sc.Fans[0].Curve = ring[0].Id
			case 1:
				if nEntry > 0 {
					sc.Fans[0].Curve = sc.Curves[entryBase].Id
				}
			} // else reachable only through unused curves
		case "badFnType":
			fn := c11PickFn(t, &sc)
			fn.FnType = rapid.SampledFrom([]string{"median", "avg", "SUM", ""}).Draw(t, "badType")
		case "fanNoCurve":
			sc.Fans[0].Curve = ""
		}
		sc.Defects = append(sc.Defects, kind)
	}
	if rapid.Bool().Draw(t, "shuffleCurves") {
		sc.CurveOrder = rapid.Permutation(seq(0, len(sc.Curves)-1)).Draw(t, "curveOrder")
	}
	return sc
}

var c11Nonce int

// c11Renamed returns a copy of the scenario in which every id carries a suffix unique to this case of
// this process: fan2go's sensor / curve / fan registries are process-wide and cannot be emptied, and a
// left-over "c_1" of an earlier case must not stand in for a curve that this case failed to register.
func c11Renamed(sc c11Scenario) c11Scenario {
	c11Nonce++
	sfx := fmt.Sprintf("_k%d", c11Nonce)
	ren := func(id string) string {
		if id == "" {
			return id
		}
		return id + sfx
	}
	out := sc
	out.Sensors = nil
	for _, x := range sc.Sensors {
		x.Id = ren(x.Id)
		out.Sensors = append(out.Sensors, x)
	}
	out.Curves = nil
	for _, c := range sc.Curves {
		c.Id = ren(c.Id)
		c.Sensor = ren(c.Sensor)
		var ms []string
		for _, m := range c.Members {
			ms = append(ms, ren(m))
		}
		c.Members = ms
		out.Curves = append(out.Curves, c)
	}
	out.Fans = nil
	for _, f := range sc.Fans {
		f.Id = ren(f.Id)
		f.Curve = ren(f.Curve)
		out.Fans = append(out.Fans, f)
	}
	return out
}

func c11PickFn(t *rapid.T, sc *c11Scenario) *c11Curve {
	var idx []int
	for i, c := range sc.Curves {
		if len(c.Kinds) == 1 && c.Kinds[0] == "function" {
			idx = append(idx, i)
		}
	}
	if len(idx) == 0 {
		sc.Curves = append(sc.Curves, c11Curve{Id: "c_fn_extra", Kinds: []string{"function"}, FnType: "maximum", Members: []string{sc.Curves[0].Id}})
		return &sc.Curves[len(sc.Curves)-1]
	}
	return &sc.Curves[idx[rapid.IntRange(0, len(idx)-1).Draw(t, "fnPick")]]
}

// ---- independent structural oracle ----------------------------------------------------------------

func c11Structural(sc c11Scenario) (defects []string) {
	seen := map[string]bool{}
	dup := func(kind, id string) {
		if seen[kind+"/"+id] {
			defects = append(defects, "duplicate "+kind+" id "+id)
		}
		seen[kind+"/"+id] = true
	}
	sensorIds, curveIds := map[string]bool{}, map[string]bool{}
	for _, s := range sc.Sensors {
		dup("sensor", s.Id)
		sensorIds[s.Id] = true
		if len(s.Backends) != 1 {
			defects = append(defects, fmt.Sprintf("sensor %s has %d backends", s.Id, len(s.Backends)))
		}
	}
	for _, c := range sc.Curves {
		dup("curve", c.Id)
		curveIds[c.Id] = true
	}
	graph := map[string][]string{}
	for _, c := range sc.Curves {
		if len(c.Kinds) != 1 {
			defects = append(defects, fmt.Sprintf("curve %s has %d kinds", c.Id, len(c.Kinds)))
		}
		for _, k := range c.Kinds {
			switch k {
			case "linear", "pid":
				if !sensorIds[c.Sensor] {
					defects = append(defects, fmt.Sprintf("curve %s references unknown sensor %q", c.Id, c.Sensor))
				}
			case "function":
				ok := false
				for _, f := range fnAll {
					if f == c.FnType {
						ok = true
					}
				}
				if !ok {
					defects = append(defects, fmt.Sprintf("curve %s has unsupported function type %q", c.Id, c.FnType))
				}
				for _, m := range c.Members {
					if !curveIds[m] {
						defects = append(defects, fmt.Sprintf("curve %s references unknown curve %q", c.Id, m))
					}
					graph[c.Id] = append(graph[c.Id], m)
				}
			}
		}
	}
	// cycles by DFS (colouring)
	color := map[string]int{}
	var visit func(n string) bool
	visit = func(n string) bool {
		color[n] = 1
		for _, m := range graph[n] {
			if color[m] == 1 {
				return true
			}
			if color[m] == 0 && visit(m) {
				return true
			}
		}
		color[n] = 2
		return false
	}
	for _, c := range sc.Curves {
		if color[c.Id] == 0 && visit(c.Id) {
			defects = append(defects, "curve dependency cycle through "+c.Id)
			break
		}
	}
	for _, f := range sc.Fans {
		dup("fan", f.Id)
		if len(f.Backends) != 1 {
			defects = append(defects, fmt.Sprintf("fan %s has %d backends", f.Id, len(f.Backends)))
		}
		if !curveIds[f.Curve] {
			defects = append(defects, fmt.Sprintf("fan %s references unknown curve %q", f.Id, f.Curve))
		}
	}
	return defects
}

// ---- YAML rendering -----------------------------------------------------------------------------

type yw struct {
	b     strings.Builder
	sc    *c11Scenario
	files string
}

func (w *yw) key(k string) string {
	if w.sc.LowerKeys {
		return strings.ToLower(k)
	}
	return k
}
func (w *yw) str(s string) string {
	switch w.sc.Quote {
	case 1:
		return "\"" + s + "\""
	case 2:
		return "'" + s + "'"
	}
	if s == "" || s != strings.TrimSpace(s) {
		return "\"" + s + "\""
	}
	return s
}

// c11NearMiss is a reference that names nothing, but looks like id to a sloppy comparison: other
// letter case, surrounding blanks ("c_nowhere" itself in one of four draws)
func c11NearMiss(t *rapid.T, id, nowhere string) string {
	if id == "" {
		return nowhere
	}
	switch rapid.IntRange(0, 7).Draw(t, "nearMiss") {
	case 0:
		return strings.ToUpper(id)
	case 1:
		return strings.ToUpper(id[:1]) + id[1:]
	case 2:
		return id + " "
	case 3:
		return " " + id
	case 4:
		return id[:len(id)-1] + strings.ToUpper(id[len(id)-1:])
	case 5:
		return id + "_"
	}
	return nowhere
}
func (w *yw) line(indent int, format string, a ...any) {
	w.b.WriteString(strings.Repeat("  ", indent))
	fmt.Fprintf(&w.b, format, a...)
	w.b.WriteString("\n")
}

func (w *yw) execBlock(indent int, name, exe string, args []string) {
	w.line(indent, "%s:", w.key(name))
	w.line(indent+1, "%s: %s", w.key("exec"), exe)
	var q []string
	for _, a := range args {
		q = append(q, "\""+a+"\"")
	}
	if w.sc.Flow {
		w.line(indent+1, "%s: [ %s ]", w.key("args"), strings.Join(q, ", "))
	} else if len(q) > 0 {
		w.line(indent+1, "%s:", w.key("args"))
		for _, a := range q {
			w.line(indent+2, "- %s", a)
		}
	}
}

func renderC11(sc *c11Scenario, dir string) string {
	w := &yw{sc: sc, files: dir}
	w.line(0, "%s: %s", w.key("dbPath"), filepath.Join(dir, "fan2go.db"))
	w.line(0, "%s: 200ms", w.key("tempSensorPollingRate"))
	w.line(0, "%s:", w.key("sensors"))
	for _, s := range sc.Sensors {
		w.line(1, "- %s: %s", w.key("id"), w.str(s.Id))
		for _, b := range s.Backends {
			switch b {
			case "hwmon":
				w.line(2, "%s:", w.key("hwmon"))
				w.line(3, "%s: coretemp", w.key("platform"))
				w.line(3, "%s: 1", w.key("index"))
			case "file":
				w.line(2, "%s:", w.key("file"))
				w.line(3, "%s: %s", w.key("path"), filepath.Join(dir, "sensor_"+s.Id))
			case "cmd":
				w.line(2, "%s:", w.key("cmd"))
				w.line(3, "%s: /bin/echo", w.key("exec"))
				if w.sc.Flow {
					w.line(3, "%s: [ '45000' ]", w.key("args"))
				} else {
					w.line(3, "%s:", w.key("args"))
					w.line(4, "- '45000'")
				}
			}
		}
	}
	w.line(0, "%s:", w.key("curves"))
	ordered := sc.Curves
	if len(sc.CurveOrder) == len(sc.Curves) {
		ordered = nil
		for _, i := range sc.CurveOrder {
			ordered = append(ordered, sc.Curves[i])
		}
	}
	for _, c := range ordered {
		w.line(1, "- %s: %s", w.key("id"), w.str(c.Id))
		for _, k := range c.Kinds {
			switch k {
			case "linear":
				w.line(2, "%s:", w.key("linear"))
				w.line(3, "%s: %s", w.key("sensor"), w.str(c.Sensor))
				switch c.StepsForm {
				case "":
					w.line(3, "%s: %d", w.key("min"), c.Min)
					w.line(3, "%s: %d", w.key("max"), c.Max)
				case "emptyListMinMax": // both forms at once: min/max plus an empty step list
					w.line(3, "%s: %d", w.key("min"), c.Min)
					w.line(3, "%s: %d", w.key("max"), c.Max)
					w.line(3, "%s: []", w.key("steps"))
				case "listMinMax": // both forms at once: min/max plus a step list
					w.line(3, "%s: %d", w.key("min"), c.Min)
					w.line(3, "%s: %d", w.key("max"), c.Max)
					w.line(3, "%s:", w.key("steps"))
					for _, s := range c.Steps {
						w.line(4, "- %d: %v", s.Temp, s.Speed)
					}
				case "emptyList":
					w.line(3, "%s: []", w.key("steps"))
				case "emptyMap":
					w.line(3, "%s: {}", w.key("steps"))
				case "map":
					w.line(3, "%s:", w.key("steps"))
					for _, s := range c.Steps {
						w.line(4, "%d: %v", s.Temp, s.Speed)
					}
				default:
					w.line(3, "%s:", w.key("steps"))
					for _, s := range c.Steps {
						w.line(4, "- %d: %v", s.Temp, s.Speed)
					}
				}
			case "pid":
				w.line(2, "%s:", w.key("pid"))
				w.line(3, "%s: %s", w.key("sensor"), w.str(c.Sensor))
				w.line(3, "%s: %v", w.key("setPoint"), c.PID[0])
				w.line(3, "p: %v", c.PID[1])
				w.line(3, "i: %v", c.PID[2])
				w.line(3, "d: %v", c.PID[3])
			case "function":
				w.line(2, "%s:", w.key("function"))
				w.line(3, "%s: %s", w.key("type"), w.str(c.FnType))
				if len(c.Members) == 0 {
					w.line(3, "%s: []", w.key("curves"))
				} else if w.sc.Flow {
					qs := make([]string, len(c.Members))
					for i, m := range c.Members {
						qs[i] = w.str(m)
					}
					w.line(3, "%s: [ %s ]", w.key("curves"), strings.Join(qs, ", "))
				} else {
					w.line(3, "%s:", w.key("curves"))
					for _, m := range c.Members {
						w.line(4, "- %s", w.str(m))
					}
				}
			}
		}
	}
	w.line(0, "%s:", w.key("fans"))
	for _, f := range sc.Fans {
		w.line(1, "- %s: %s", w.key("id"), w.str(f.Id))
		for _, b := range f.Backends {
			switch b {
			case "hwmon":
				w.line(2, "%s:", w.key("hwmon"))
				w.line(3, "%s: nct6798", w.key("platform"))
				if f.ByIndex {
					w.line(3, "%s: 2", w.key("index"))
				} else {
					w.line(3, "%s: 1", w.key("rpmChannel"))
				}
				if f.PwmCh > 0 {
					w.line(3, "%s: %d", w.key("pwmChannel"), f.PwmCh)
				}
			case "file":
				w.line(2, "%s:", w.key("file"))
				w.line(3, "%s: %s", w.key("path"), filepath.Join(dir, "fan_"+f.Id))
				if !f.NoRpm {
					w.line(3, "%s: %s", w.key("rpmPath"), filepath.Join(dir, "fanrpm_"+f.Id))
				}
			case "cmd":
				w.line(2, "%s:", w.key("cmd"))
				w.execBlock(3, "setPwm", "/bin/true", []string{"--set", "%pwm%"})
				w.execBlock(3, "getPwm", "/bin/echo", []string{"128"})
				if !f.NoRpm {
					w.execBlock(3, "getRpm", "/bin/echo", []string{"1200"})
				}
			}
		}
		if f.NeverStop {
			w.line(2, "%s: true", w.key("neverStop"))
		}
		if f.Curve != "" {
			w.line(2, "%s: %s", w.key("curve"), w.str(f.Curve))
		}
		switch f.Algo {
		case "direct", "pid":
			w.line(2, "%s: %s", w.key("controlAlgorithm"), f.Algo)
		case "directObj":
			w.line(2, "%s:", w.key("controlAlgorithm"))
			w.line(3, "%s:", w.key("direct"))
			w.line(4, "%s: %d", w.key("maxPwmChangePerCycle"), f.MaxChange)
		case "pidObj":
			w.line(2, "%s:", w.key("controlAlgorithm"))
			w.line(3, "%s:", w.key("pid"))
			w.line(4, "p: 0.3")
			w.line(4, "i: 0.02")
			w.line(4, "d: 0.005")
		}
		if f.Limits[0] >= 0 {
			w.line(2, "%s: %d", w.key("minPwm"), f.Limits[0])
			w.line(2, "%s: %d", w.key("startPwm"), f.Limits[1])
			w.line(2, "%s: %d", w.key("maxPwm"), f.Limits[2])
		}
		if f.PwmMap != nil {
			w.line(2, "%s:", w.key("pwmMap"))
			keys := []int{}
			for k := range f.PwmMap {
				keys = append(keys, k)
			}
			sort.Ints(keys)
			for _, k := range keys {
				w.line(3, "%d: %d", k, f.PwmMap[k])
			}
		}
	}
	return w.b.String()
}

// ---- execution ------------------------------------------------------------------------------------

func c11Validate(path string) (accepted bool, msg string) {
	defer func() {
		if r := recover(); r != nil {
			accepted, msg = false, fmt.Sprintf("loader panicked (fatal): %v", r)
		}
	}()
	viper.Reset()
	configuration.InitConfig(path)
	if err := viper.ReadInConfig(); err != nil { // what DetectAndReadConfigFile does, minus os.Exit
		return false, "unreadable: " + err.Error()
	}
	configuration.LoadConfig()
	if err := configuration.Validate(path); err != nil {
		return false, err.Error()
	}
	return true, ""
}

// c11Instantiate builds everything with the real constructors and evaluates every curve.
// c11FakeHwmon creates the devices the generated hwmon entries name (platform coretemp, index 1;
// platform nct6798, fan index 2 / rpmChannel 1, pwmChannel 1..5).
func c11FakeHwmon(dir string) string {
	tree := filepath.Join(dir, "hwmon")
	nct := filepath.Join(tree, "hwmon0")
	_ = os.MkdirAll(nct, 0755)
	_ = os.WriteFile(filepath.Join(nct, "name"), []byte("nct6798\n"), 0644)
	_ = os.WriteFile(filepath.Join(nct, "verif_bus"), []byte("1 0 0x290\n"), 0644)
	for ch := 1; ch <= 5; ch++ {
		_ = os.WriteFile(filepath.Join(nct, fmt.Sprintf("fan%d_input", ch)), []byte("1200\n"), 0644)
		_ = os.WriteFile(filepath.Join(nct, fmt.Sprintf("pwm%d", ch)), []byte("128\n"), 0644)
		_ = os.WriteFile(filepath.Join(nct, fmt.Sprintf("pwm%d_enable", ch)), []byte("2\n"), 0644)
	}
	ct := filepath.Join(tree, "hwmon1")
	_ = os.MkdirAll(ct, 0755)
	_ = os.WriteFile(filepath.Join(ct, "name"), []byte("coretemp\n"), 0644)
	_ = os.WriteFile(filepath.Join(ct, "verif_bus"), []byte("1 0 0x0\n"), 0644)
	_ = os.WriteFile(filepath.Join(ct, "temp1_input"), []byte("45000\n"), 0644)
	return tree
}

// c11Initialize takes the accepted configuration through the daemon's own start-up path
// (internal.InitializeObjects: sensors, curves, fans) and evaluates the curve of every fan.
func c11Initialize(dir string) (problems []sim.Violation) {
	cfg := configuration.CurrentConfig
	for _, sc := range cfg.Sensors {
		if sc.File != nil {
			_ = os.WriteFile(sc.File.Path, []byte("45000\n"), 0644)
		}
	}
	for _, fc := range cfg.Fans {
		if fc.File != nil {
			_ = os.WriteFile(fc.File.Path, []byte("128\n"), 0644)
			if fc.File.RpmPath != "" {
				_ = os.WriteFile(fc.File.RpmPath, []byte("1200\n"), 0644)
			}
		}
	}
	os.Setenv("FAN2GO_VERIF_HWMON_ROOT", c11FakeHwmon(dir))
	freshPrometheus()
	fanMap, err := internal.InitializeObjects()
	if err != nil {
		return []sim.Violation{{Key: "accepted-but-not-initializable", Msg: "internal.InitializeObjects: " + err.Error()}}
	}
	for _, f := range fanMap {
		func() {
			defer func() {
				if r := recover(); r != nil {
					problems = append(problems, sim.Violation{Key: "accepted-but-fan-curve-panics", Msg: fmt.Sprintf("fan %s: evaluating its curve %s after the daemon's own initialisation panicked: %v", f.GetId(), f.GetCurveId(), r)})
				}
			}()
			c, ok := curves.GetSpeedCurve(f.GetCurveId())
			if !ok || c == nil {
				problems = append(problems, sim.Violation{Key: "accepted-but-fan-curve-missing", Msg: fmt.Sprintf("fan %s: its curve %s is not registered after the daemon's own initialisation", f.GetId(), f.GetCurveId())})
				return
			}
			_, _ = c.Evaluate()
		}()
	}
	return
}

func c11Instantiate(dir string) (problems []sim.Violation) {
	cfg := configuration.CurrentConfig
	var sens []sensors.Sensor
	for _, sc := range cfg.Sensors {
		if sc.File != nil {
			_ = os.WriteFile(sc.File.Path, []byte("45000\n"), 0644)
		}
		s, err := sensors.NewSensor(sc)
		if err != nil {
			problems = append(problems, sim.Violation{Key: "accepted-but-sensor-not-instantiable", Msg: err.Error()})
			return
		}
		sensors.RegisterSensor(s)
		sens = append(sens, s)
	}
	var crv []curves.SpeedCurve
	for _, cc := range cfg.Curves {
		c, err := curves.NewSpeedCurve(cc)
		if err != nil {
			problems = append(problems, sim.Violation{Key: "accepted-but-curve-not-instantiable", Msg: err.Error()})
			return
		}
		curves.RegisterSpeedCurve(c)
		crv = append(crv, c)
	}
	for _, fc := range cfg.Fans {
		if _, err := fans.NewFan(fc); err != nil {
			problems = append(problems, sim.Violation{Key: "accepted-but-fan-not-instantiable", Msg: err.Error()})
			return
		}
	}
	states := []float64{45000, 0, -20000, 250000, 1e300}
	for si, st := range states {
		for _, s := range sens {
			s.SetMovingAvg(st + float64(si))
		}
		for i, c := range crv {
			func() {
				defer func() {
					if r := recover(); r != nil {
						key := "accepted-but-evaluate-panics"
						cc := cfg.Curves[i]
						if cc.Linear != nil && cc.Linear.Steps != nil && len(cc.Linear.Steps) == 0 {
							key = "empty-steps-accepted"
						} else if cc.Function != nil && len(cc.Function.Curves) == 0 {
							key = "empty-function-accepted"
						}
						problems = append(problems, sim.Violation{Key: key, Msg: fmt.Sprintf("curve %s: Evaluate panicked: %v", c.GetId(), r)})
					}
				}()
				v, err := c.Evaluate()
				cc := cfg.Curves[i]
				if err != nil && cc.Linear != nil {
					problems = append(problems, sim.Violation{Key: "accepted-but-linear-curve-errors", Msg: fmt.Sprintf("curve %s: %v", c.GetId(), err)})
				}
				if err == nil && (v < 0 || v > 255) {
					problems = append(problems, sim.Violation{Key: "accepted-but-value-out-of-range", Msg: fmt.Sprintf("curve %s = %d", c.GetId(), v)})
				}
			}()
			if len(problems) > 2 {
				return
			}
		}
	}
	return
}

func runC11(t *testing.T, sc c11Scenario) verdict {
	dir, err := os.MkdirTemp(sim.WorkDir(), "c11-")
	if err != nil {
		return verdict{vs: []sim.Violation{{Key: "harness", Msg: err.Error()}}}
	}
	defer os.RemoveAll(dir)
	rsc := c11Renamed(sc)
	text := renderC11(&rsc, dir)
	path := filepath.Join(dir, "fan2go.yaml")
	_ = os.WriteFile(path, []byte(text), 0644)
	accepted, msg := c11Validate(path)
	defects := c11Structural(sc)
	var vs []sim.Violation
	// differential against the real CLI on a sample: `fan2go -c <file> config validate`
	cli := ""
	if bin := os.Getenv("VERIF_FAN2GO_BIN"); bin != "" && sim.Hash(sc)[0] == '0' {
		cmd := exec.Command(bin, "-c", path, "--no-style", "--no-color", "config", "validate")
		cmd.Env = append(os.Environ(), "FAN2GO_VERIF_HWMON_ROOT="+filepath.Join(dir, "no-hwmon"), "HOME="+dir)
		out, err := cmd.CombinedOutput()
		cliAccepted := err == nil
		cli = "accepted"
		if !cliAccepted {
			cli = "rejected"
		}
		if cliAccepted != accepted {
			vs = append(vs, sim.Violation{Key: "cli-verdict-differs-from-validator", Msg: fmt.Sprintf("`fan2go config validate` %s the file, configuration.Validate says accepted=%v (%s); CLI output: %s", cli, accepted, msg, clip(string(out)))})
		}
	}
	undocumented := false
	emptyish := false
	for _, c := range sc.Curves {
		if c.StepsForm == "map" || c.StepsForm == "emptyList" || c.StepsForm == "emptyMap" || c.StepsForm == "emptyListMinMax" || c.StepsForm == "listMinMax" {
			undocumented = true
		}
		if len(c.Kinds) == 1 && c.Kinds[0] == "function" && len(c.Members) == 0 {
			undocumented = true
		}
		if c.StepsForm == "emptyList" || c.StepsForm == "emptyMap" || c.StepsForm == "emptyListMinMax" || c.StepsForm == "single" || (len(c.Kinds) == 1 && c.Kinds[0] == "function" && len(c.Members) <= 1) {
			emptyish = true
		}
	}
	switch {
	case accepted && len(defects) > 0:
		vs = append(vs, sim.Violation{Key: "structurally-broken-config-accepted", Msg: fmt.Sprintf("validator accepted a configuration with: %v", defects)})
	case accepted:
		vs = append(vs, c11Initialize(dir)...)
		if len(vs) == 0 {
			vs = append(vs, c11Instantiate(dir)...)
		}
	case !accepted && len(defects) == 0 && !undocumented:
		vs = append(vs, sim.Violation{Key: "documented-config-rejected", Msg: fmt.Sprintf("configuration built only from documented forms was rejected: %s\n%s", msg, text)})
	}
	labels := []string{}
	if accepted {
		labels = append(labels, "accepted")
	} else {
		labels = append(labels, "rejected")
	}
	for _, d := range sc.Defects {
		labels = append(labels, "defect:"+d)
	}
	if len(sc.CurveOrder) > 0 {
		labels = append(labels, "curves-in-shuffled-order")
	}
	if cli != "" {
		labels = append(labels, "cli-differential")
	}
	fnNodes := 0
	for _, c := range sc.Curves {
		if len(c.Kinds) == 1 && c.Kinds[0] == "function" {
			fnNodes++
		}
	}
	nt := (len(sc.Curves) >= 3 && fnNodes > 0) || len(sc.Defects) > 0 || emptyish
	return verdict{vs: vs, nontrivial: nt, labels: labels, outcome: map[string]any{"accepted": accepted, "message": msg, "structuralDefects": defects}}
}

func TestC11(t *testing.T) { runProperty(t, "C11", genC11, runC11) }
