package props

// C01 - every PWM value written while regulating stays inside the fan's limits.
//
// Oracle: every write logged by the PWM device between the curve's first evaluation and the
// cancellation of Run is an element of { map[nearest(r)] : fanMin_t <= r <= fanMax_t } and of
// 0..255, where nearest is C12's brute-force reference, map the effective PWM map and the limits
// are those the fan reported immediately before the cycle.

import (
	"fmt"
	"math"
	"testing"

	"github.com/markusressel/fan2go/verifharness/sim"
	"pgregory.net/rapid"
)

type c01Scenario struct {
	Loop sim.LoopScenario `json:"loop"`
	Eff  map[int]int      `json:"effectiveMap"`
}

var c01Curves = []int{0, 255, 256, -1, 1, 128, 1000, -1000, math.MaxInt64, math.MinInt64, math.MaxInt32, math.MinInt32}

func genC01(t *rapid.T) c01Scenario {
	fan, eff := genFan(t, fanOpts{})
	sc := sim.LoopScenario{Fan: fan, Loop: genLoop(t, true), TickMs: genTick(t), RpmPollMs: rapid.SampledFrom([]int{100, 1000, 3000}).Draw(t, "pollMs"),
		RpmWindow: rapid.IntRange(1, 20).Draw(t, "window"), Stop: sim.StopSpec{AtMs: -1}}
	sc.Law = sim.RpmLaw{Theta: rapid.SampledFrom([]int{0, 0, 30, 120, 256}).Draw(t, "theta"), Rpm: rapid.SampledFrom([]int{0, 1, 800, 1000000}).Draw(t, "rpm")}
	n := rapid.IntRange(1, 60).Draw(t, "nSteps")
	if fan.Kind == "cmd" && n > 25 {
		n = 25 // every cycle of a script based fan costs several process executions
	}
	cv := rapid.OneOf(rapid.IntRange(-1000, 1000), rapid.IntRange(0, 255), rapid.SampledFrom(c01Curves))
	for i := 0; i < n; i++ {
		s := sim.Step{Curve: cv.Draw(t, "curve")}
		if rapid.IntRange(0, 5).Draw(t, "rpmChange") == 0 {
			s.Rpm = ip(rapid.SampledFrom([]int{0, 1, 800, 1000000}).Draw(t, "rpmNew"))
		}
		s.Zero = rapid.IntRange(0, 7).Draw(t, "zero") == 0
		// "every control-algorithm state": third parties and failing devices put the controller into
		// states ordinary cycles do not reach
		switch rapid.IntRange(0, 19).Draw(t, "disturb") {
		case 0:
			s.IntPwm = ip(rapid.IntRange(0, 255).Draw(t, "intPwm"))
		case 1:
			s.IntMode = ip(rapid.SampledFrom([]int{0, 2, 3}).Draw(t, "intMode"))
		case 2:
			s.PwmWrite = rapid.SampledFrom([]int{sim.WriteRefuse, sim.WriteIgnore}).Draw(t, "pwmWrite")
		case 3:
			s.PwmRead = rapid.SampledFrom([]int{sim.ReadEIO, sim.ReadGarbage, sim.ReadEmpty}).Draw(t, "pwmRead")
		case 4:
			s.RpmRead = rapid.SampledFrom([]int{sim.ReadEIO, sim.ReadGarbage}).Draw(t, "rpmRead")
		}
		sc.Steps = append(sc.Steps, s)
	}
	return c01Scenario{Loop: sc, Eff: eff}
}

func runC01(t *testing.T, sc c01Scenario) verdict {
	res := sim.RunLoop(t, sc.Loop)
	var vs []sim.Violation
	if !res.Started && !res.Ended {
		vs = append(vs, sim.Violation{Key: "harness", Msg: "regulation never started"})
	}
	if res.Hung {
		vs = append(vs, sim.Violation{Key: "harness-hung", Msg: "Run did not return after cancellation"})
	}
	cache := map[[2]int]map[int]bool{}
	nWrites := 0
	for i, o := range res.Obs {
		lo, hi := o.FanMin, o.FanMax
		if !sc.Loop.Fan.NeverStop && lo != 0 {
			vs = append(vs, sim.Violation{Key: "min-nonzero-without-neverstop", Msg: fmt.Sprintf("cycle %d: fan without neverStop reports minimum %d", i, lo)})
		}
		al, ok := cache[[2]int{lo, hi}]
		if !ok {
			al = allowedWrites(sc.Eff, lo, hi)
			cache[[2]int{lo, hi}] = al
		}
		if o.EndedHere {
			continue // a control error ended regulation in this cycle: its writes are the restoration (C03)
		}
		for _, w := range o.Writes {
			nWrites++
			if w.V < 0 || w.V > 255 {
				vs = append(vs, sim.Violation{Key: "write-outside-0-255", Msg: fmt.Sprintf("cycle %d: wrote %d", i, w.V)})
			} else if !al[w.V] {
				vs = append(vs, sim.Violation{Key: "write-outside-limits", Msg: fmt.Sprintf("cycle %d: wrote %d, but requests in [%d,%d] only map to %v", i, w.V, lo, hi, keysOf(al))})
			}
			if len(vs) > 3 {
				break
			}
		}
	}
	// non-trivial rule
	nt := false
	labels := []string{"kind:" + sc.Loop.Fan.Kind, "loop:" + sc.Loop.Loop.Kind}
	for _, s := range sc.Loop.Steps {
		if s.Curve < 0 || s.Curve > 255 {
			nt = true
			labels = append(labels, "curve-out-of-range")
			break
		}
	}
	for _, s := range sc.Loop.Steps {
		if s.Zero {
			nt = true
			labels = append(labels, "elapsed-0")
			break
		}
	}
	ident := true
	for k, v := range sc.Eff {
		if k != v {
			ident = false
		}
	}
	if !ident || len(sc.Eff) < 256 {
		nt = true
		labels = append(labels, "non-identity-map")
	}
	l := sc.Loop.Loop
	if l.Kind == "pid" && (math.Abs(l.P) >= 100 || math.Abs(l.I) >= 100 || math.Abs(l.D) >= 100) {
		nt = true
		labels = append(labels, "extreme-gains")
	}
	if sc.Loop.Fan.NeverStop {
		labels = append(labels, "neverStop")
	}
	for _, s := range sc.Loop.Steps {
		if s.IntPwm != nil || s.IntMode != nil || s.PwmWrite != 0 || s.PwmRead != 0 || s.RpmRead != 0 {
			labels = append(labels, "disturbed")
			break
		}
	}
	if res.Ended {
		labels = append(labels, "ended-early")
	}
	if nWrites == 0 {
		nt = false
		labels = append(labels, "no-writes")
	}
	return verdict{vs: vs, nontrivial: nt, labels: labels, outcome: map[string]any{"writes": nWrites, "cycles": len(res.Obs), "ended": res.Ended, "finalPwm": res.FinalPwm}}
}

func keysOf(m map[int]bool) []int {
	var out []int
	for k := range m {
		out = append(out, k)
	}
	sortInts(out)
	return out
}

func TestC01(t *testing.T) { runProperty(t, "C01", genC01, runC01) }
