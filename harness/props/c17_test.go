package props

// C17 - hwmon entries bind to the device the user named, or fail cleanly.
//
// A generated fake hwmon tree is offered to the real internal.InitializeObjects through the pure-Go
// stand-in for gosensors. Oracle: independent lookup in the generated tree (unique file values make
// a wrong binding visible through GetRpm/GetPwm/GetValue), invariance under permuted enumeration,
// and for selectors that match nothing an error naming the entry - never a panic.

import (
	"fmt"
	"os"
	"path/filepath"
	"regexp"
	"sort"
	"strings"
	"testing"

	"github.com/markusressel/fan2go/internal"
	"github.com/markusressel/fan2go/internal/configuration"
	"github.com/markusressel/fan2go/internal/fans"
	"github.com/markusressel/fan2go/internal/sensors"
	"github.com/markusressel/fan2go/verifharness/sim"
	"pgregory.net/rapid"
)

type c17Chip struct {
	Dir     string `json:"dir"`
	Name    string `json:"name"`
	BusType int    `json:"busType"`
	BusNr   int    `json:"busNr"`
	Addr    int    `json:"addr"`
	Fans    []int  `json:"fans"`    // channels with fanN_input
	Pwms    []int  `json:"pwms"`    // channels with pwmN
	Enables []int  `json:"enables"` // channels with pwmN_enable
	Temps   []int  `json:"temps"`   // N of tempN_input
}

type c17Entry struct {
	Kind       string `json:"kind"` // fan | sensor
	Id         string `json:"id"`
	Chip       int    `json:"chip"` // index of the intended chip (-1: unknown platform)
	Platform   string `json:"platform"`
	Index      int    `json:"index,omitempty"`
	RpmChannel int    `json:"rpmChannel,omitempty"`
	PwmChannel int    `json:"pwmChannel,omitempty"`
	Exists     bool   `json:"exists"`
}

type c17Scenario struct {
	Chips   []c17Chip  `json:"chips"`
	Order   []int      `json:"order"`  // enumeration permutation
	Order2  []int      `json:"order2"` // second enumeration for the metamorphic run
	Entries []c17Entry `json:"entries"`
}

var c17Names = []string{"nct6798", "nct6779", "it8620", "it8628", "coretemp", "amdgpu", "k10temp", "nvme", "acpitz"}

func c17Identifier(c c17Chip) string {
	switch c.BusType {
	case 1:
		return fmt.Sprintf("%s-isa-%d%03x", c.Name, c.BusNr, c.Addr)
	case 2:
		return fmt.Sprintf("%s-pci-%d%03x", c.Name, c.BusNr, c.Addr)
	case 4:
		return fmt.Sprintf("%s-virtual-%d", c.Name, c.BusNr)
	case 5:
		return fmt.Sprintf("%s-acpi-%d", c.Name, c.BusNr)
	}
	return c.Name
}

func c17Matches(pattern string, chips []c17Chip) []int {
	re, err := regexp.Compile("(?i)" + pattern)
	if err != nil {
		return nil
	}
	var out []int
	for i, c := range chips {
		if re.MatchString(c17Identifier(c)) {
			out = append(out, i)
		}
	}
	return out
}

func genSubset(t *rapid.T, label string, from []int, minN int) []int {
	var out []int
	for _, x := range from {
		if rapid.IntRange(0, 2).Draw(t, label) > 0 {
			out = append(out, x)
		}
	}
	if len(out) < minN && len(from) > 0 {
		out = []int{from[0]}
	}
	return out
}

func genC17(t *rapid.T) c17Scenario {
	var sc c17Scenario
	n := rapid.IntRange(1, 4).Draw(t, "nChips")
	seen := map[string]bool{}
	for len(sc.Chips) < n {
		c := c17Chip{Dir: fmt.Sprintf("hwmon%d", len(sc.Chips)), Name: rapid.SampledFrom(c17Names).Draw(t, "name"),
			BusType: rapid.SampledFrom([]int{1, 1, 2, 4, 5}).Draw(t, "busType"), BusNr: rapid.IntRange(0, 2).Draw(t, "busNr"),
			Addr: rapid.SampledFrom([]int{0x290, 0x2a0, 0xa20, 0x100, 0x0}).Draw(t, "addr")}
		if seen[strings.ToLower(c17Identifier(c))] {
			continue
		}
		seen[strings.ToLower(c17Identifier(c))] = true
		c.Fans = genSubset(t, "fanCh", []int{1, 2, 3, 4, 5, 6, 7, 10, 12}, 0)
		c.Pwms = genSubset(t, "pwmCh", []int{1, 2, 3, 4, 5, 6, 7, 10, 12}, 0)
		c.Enables = genSubset(t, "enCh", c.Pwms, 0)
		c.Temps = genSubset(t, "tempN", []int{1, 2, 3, 4, 5, 6, 7, 8, 9, 10, 11, 12, 13, 21}, 0) // two-digit numbers: temp10 sorts before temp2 as a string
		if len(c.Fans) == 0 && len(c.Temps) == 0 {
			c.Temps = []int{rapid.IntRange(1, 9).Draw(t, "oneTemp")}
		}
		sc.Chips = append(sc.Chips, c)
	}
	sc.Order = rapid.Permutation(seq(0, n-1)).Draw(t, "order")
	sc.Order2 = rapid.Permutation(seq(0, n-1)).Draw(t, "order2")
	ne := rapid.IntRange(1, 5).Draw(t, "nEntries")
	for i := 0; i < ne; i++ {
		e := c17Entry{Id: fmt.Sprintf("entry%d", i), Exists: true}
		ci := rapid.IntRange(0, n-1).Draw(t, "chip")
		chip := sc.Chips[ci]
		e.Chip = ci
		// platform pattern that matches exactly this chip
		id := c17Identifier(chip)
		cands := []string{id, strings.ToUpper(id), chip.Name, strings.ToUpper(chip.Name[:1]) + chip.Name[1:], id[:len(id)-1], "^" + id + "$"}
		var ok []string
		for _, p := range cands {
			if m := c17Matches(p, sc.Chips); len(m) == 1 && m[0] == ci {
				ok = append(ok, p)
			}
		}
		e.Platform = rapid.SampledFrom(ok).Draw(t, "platform")
		wantFan := rapid.Bool().Draw(t, "isFan")
		if wantFan && len(chip.Fans) == 0 {
			wantFan = false
		}
		if !wantFan && len(chip.Temps) == 0 {
			wantFan = true
		}
		missing := rapid.IntRange(0, 4).Draw(t, "missing") == 0
		if wantFan {
			e.Kind = "fan"
			byIndex := rapid.Bool().Draw(t, "byIndex")
			if byIndex {
				e.Index = rapid.IntRange(1, len(chip.Fans)).Draw(t, "fanIndex")
			} else {
				e.RpmChannel = rapid.SampledFrom(chip.Fans).Draw(t, "rpmChannel")
			}
			if rapid.Bool().Draw(t, "pwmGiven") {
				e.PwmChannel = rapid.IntRange(1, 7).Draw(t, "pwmChannel")
			}
			if missing {
				e.Exists = false
				switch rapid.IntRange(0, 2).Draw(t, "how") {
				case 0:
					e.Platform, e.Chip = "doesnotexist", -1
				case 1:
					e.Index, e.RpmChannel = len(chip.Fans)+1+rapid.IntRange(0, 3).Draw(t, "beyond"), 0
				default:
					free := 0
					for ch := 1; ch <= 9; ch++ {
						if !containsInt(chip.Fans, ch) {
							free = ch
							break
						}
					}
					e.Index, e.RpmChannel = 0, free
				}
			}
		} else {
			e.Kind = "sensor"
			e.Index = rapid.IntRange(1, len(chip.Temps)).Draw(t, "tempIndex")
			if missing {
				e.Exists = false
				if rapid.Bool().Draw(t, "how") {
					e.Platform, e.Chip = "doesnotexist", -1
				} else {
					e.Index = len(chip.Temps) + 1 + rapid.IntRange(0, 3).Draw(t, "beyond")
				}
			}
		}
		sc.Entries = append(sc.Entries, e)
	}
	return sc
}

// c17Tree materialises the tree; every file holds a value unique in the tree.
func c17Tree(root string, sc c17Scenario, order []int) map[string]int {
	vals := map[string]int{}
	next := 1000
	put := func(p string) {
		next += 7
		vals[p] = next
		_ = os.WriteFile(p, []byte(fmt.Sprintf("%d\n", next)), 0644)
	}
	var names []string
	for _, c := range sc.Chips {
		d := filepath.Join(root, c.Dir)
		_ = os.MkdirAll(d, 0755)
		_ = os.WriteFile(filepath.Join(d, "name"), []byte(c.Name+"\n"), 0644)
		_ = os.WriteFile(filepath.Join(d, "verif_bus"), []byte(fmt.Sprintf("%d %d 0x%x\n", c.BusType, c.BusNr, c.Addr)), 0644)
		for _, ch := range c.Fans {
			put(filepath.Join(d, fmt.Sprintf("fan%d_input", ch)))
		}
		for _, ch := range c.Pwms {
			put(filepath.Join(d, fmt.Sprintf("pwm%d", ch)))
		}
		for _, ch := range c.Enables {
			put(filepath.Join(d, fmt.Sprintf("pwm%d_enable", ch)))
		}
		for _, n := range c.Temps {
			put(filepath.Join(d, fmt.Sprintf("temp%d_input", n)))
		}
	}
	for _, i := range order {
		names = append(names, sc.Chips[i].Dir)
	}
	_ = os.WriteFile(filepath.Join(root, "order"), []byte(strings.Join(names, " ")+"\n"), 0644)
	return vals
}

type c17Binding struct {
	Id    string `json:"id"`
	Rpm   string `json:"rpm,omitempty"`
	Pwm   string `json:"pwm,omitempty"`
	En    string `json:"enable,omitempty"`
	Input string `json:"input,omitempty"`
}

func c17Run(root string, sc c17Scenario) (bind []c17Binding, err error, panicked string) {
	defer func() {
		if r := recover(); r != nil {
			panicked = fmt.Sprint(r)
		}
	}()
	sim.BaseConfig()
	os.Setenv("FAN2GO_VERIF_HWMON_ROOT", root)
	cfg := &configuration.CurrentConfig
	cfg.Curves = []configuration.CurveConfig{}
	for _, e := range sc.Entries {
		if e.Kind == "fan" {
			cfg.Fans = append(cfg.Fans, configuration.FanConfig{ID: e.Id, Curve: "none",
				HwMon: &configuration.HwMonFanConfig{Platform: e.Platform, Index: e.Index, RpmChannel: e.RpmChannel, PwmChannel: e.PwmChannel}})
		} else {
			cfg.Sensors = append(cfg.Sensors, configuration.SensorConfig{ID: e.Id, HwMon: &configuration.HwMonSensorConfig{Platform: e.Platform, Index: e.Index}})
		}
	}
	freshPrometheus()
	_, err = internal.InitializeObjects()
	if err != nil {
		return nil, err, ""
	}
	for _, e := range sc.Entries {
		if e.Kind == "fan" {
			f, ok := fans.GetFan(e.Id)
			if !ok {
				return nil, fmt.Errorf("fan %s not registered", e.Id), ""
			}
			h := f.(*fans.HwMonFan).Config.HwMon
			bind = append(bind, c17Binding{Id: e.Id, Rpm: h.RpmInputPath, Pwm: h.PwmPath, En: h.PwmEnablePath})
		} else {
			s, ok := sensors.GetSensor(e.Id)
			if !ok {
				return nil, fmt.Errorf("sensor %s not registered", e.Id), ""
			}
			bind = append(bind, c17Binding{Id: e.Id, Input: s.(*sensors.HwmonSensor).Input})
		}
	}
	return bind, nil, ""
}

func runC17(t *testing.T, sc c17Scenario) verdict {
	root, err := os.MkdirTemp(sim.WorkDir(), "c17-")
	if err != nil {
		return verdict{vs: []sim.Violation{{Key: "harness", Msg: err.Error()}}}
	}
	defer os.RemoveAll(root)
	vals := c17Tree(root, sc, sc.Order)
	var vs []sim.Violation
	add := func(k, m string) {
		if len(vs) < 4 {
			vs = append(vs, sim.Violation{Key: k, Msg: m})
		}
	}
	bind, ierr, pan := c17Run(root, sc)
	allExist := true
	var firstMissing *c17Entry
	for i := range sc.Entries {
		if !sc.Entries[i].Exists {
			allExist = false
			if firstMissing == nil {
				firstMissing = &sc.Entries[i]
			}
		}
	}
	switch {
	case pan != "":
		key := "panic"
		if firstMissing != nil && firstMissing.Kind == "sensor" && firstMissing.Chip >= 0 {
			key = "missing-sensor-index-nil-deref"
		}
		add(key, fmt.Sprintf("InitializeObjects panicked: %s", pan))
	case allExist && ierr != nil:
		add("existing-device-not-bound", fmt.Sprintf("every entry names an existing device, yet start-up failed: %v", ierr))
	case !allExist && ierr == nil:
		add("missing-device-silently-bound", fmt.Sprintf("entry %s (%+v) names no existing device, yet start-up succeeded with bindings %+v", firstMissing.Id, *firstMissing, bind))
	case !allExist:
		// the error must name an entry that does not exist (the first one fan2go meets)
		named := false
		for _, e := range sc.Entries {
			if !e.Exists && strings.Contains(ierr.Error(), e.Id) {
				named = true
			}
		}
		if !named {
			add("error-does-not-name-the-entry", fmt.Sprintf("start-up failed with %q, which names none of the unmatched entries", ierr.Error()))
		}
	default:
		// reference lookup
		for i, e := range sc.Entries {
			chip := sc.Chips[e.Chip]
			d := filepath.Join(root, chip.Dir)
			b := bind[i]
			if e.Kind == "fan" {
				fansSorted := append([]int{}, chip.Fans...)
				sort.Ints(fansSorted)
				rpm := e.RpmChannel
				if rpm == 0 {
					rpm = fansSorted[e.Index-1]
				}
				pwm := e.PwmChannel
				if pwm == 0 {
					pwm = rpm
				}
				want := c17Binding{Id: e.Id, Rpm: filepath.Join(d, fmt.Sprintf("fan%d_input", rpm)), Pwm: filepath.Join(d, fmt.Sprintf("pwm%d", pwm)), En: filepath.Join(d, fmt.Sprintf("pwm%d_enable", pwm))}
				if b != want {
					add("fan-bound-to-wrong-device", fmt.Sprintf("entry %+v on chip %s: bound %+v, want %+v", e, c17Identifier(chip), b, want))
					continue
				}
				f, _ := fans.GetFan(e.Id)
				if v, err := f.GetRpm(); err != nil || v != vals[want.Rpm] {
					add("fan-reads-wrong-device", fmt.Sprintf("entry %s: GetRpm() = %d (%v), the file holds %d", e.Id, v, err, vals[want.Rpm]))
				}
				if pv, has := vals[want.Pwm]; has {
					if v, err := f.GetPwm(); err != nil || v != pv {
						add("fan-reads-wrong-device", fmt.Sprintf("entry %s: GetPwm() = %d (%v), the file holds %d", e.Id, v, err, pv))
					}
				}
			} else {
				temps := append([]int{}, chip.Temps...)
				sort.Ints(temps)
				want := filepath.Join(d, fmt.Sprintf("temp%d_input", temps[e.Index-1]))
				if b.Input != want {
					add("sensor-bound-to-wrong-device", fmt.Sprintf("entry %+v on chip %s: bound %s, want %s", e, c17Identifier(chip), b.Input, want))
					continue
				}
				s, _ := sensors.GetSensor(e.Id)
				if v, err := s.GetValue(); err != nil || int(v) != vals[want] {
					add("sensor-reads-wrong-device", fmt.Sprintf("entry %s: GetValue() = %v (%v), the file holds %d", e.Id, v, err, vals[want]))
				}
			}
		}
		// metamorphic: independent of the enumeration order
		c17Tree(root, sc, sc.Order2)
		bind2, err2, pan2 := c17Run(root, sc)
		if pan2 != "" || err2 != nil || fmt.Sprint(bind2) != fmt.Sprint(bind) {
			add("binding-depends-on-enumeration-order", fmt.Sprintf("order %v -> %+v; order %v -> %+v (err %v, panic %q)", sc.Order, bind, sc.Order2, bind2, err2, pan2))
		}
	}
	// non-trivial rule
	nt := false
	if len(sc.Chips) >= 2 {
		names := map[string]int{}
		for _, c := range sc.Chips {
			names[c.Name[:3]]++
		}
		for _, n := range names {
			if n >= 2 {
				nt = true // look-alike chip names
			}
		}
		for _, e := range sc.Entries {
			if !e.Exists {
				nt = true
			}
			if e.Kind == "fan" && e.Exists && e.Index > 0 {
				fs := append([]int{}, sc.Chips[e.Chip].Fans...)
				sort.Ints(fs)
				if fs[e.Index-1] != e.Index {
					nt = true // index != channel
				}
			}
		}
	}
	labels := []string{fmt.Sprintf("chips:%d", len(sc.Chips))}
	if allExist {
		labels = append(labels, "all-exist")
	} else {
		labels = append(labels, "some-missing")
	}
	return verdict{vs: vs, nontrivial: nt, labels: labels, outcome: map[string]any{"bindings": bind, "error": fmt.Sprint(ierr)}}
}

func TestC17(t *testing.T) { runProperty(t, "C17", genC17, runC17) }
