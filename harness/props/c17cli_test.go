package props

// C17 (CLI tier) - the same generated trees and selectors, through the real binary:
//   fan2go -c cfg sensor --id X        prints the value of the bound temperature input
//   fan2go -c cfg fan --id X rpm|speed prints the value of the bound fanN_input / pwmN
// and, for the daemon's start-up path, `fan2go -c cfg` itself must end with an error naming the
// entry (never a nil-pointer trace) when an entry names no device.
// Oracle: with unique file values, a printed number identifies the device it was read from.

import (
	"fmt"
	"os"
	"os/exec"
	"path/filepath"
	"regexp"
	"sort"
	"strconv"
	"strings"
	"testing"
	"time"

	"github.com/markusressel/fan2go/verifharness/sim"
	"pgregory.net/rapid"
)

var numRe = regexp.MustCompile(`(\d+)\s*$`)

func c17CliConfig(dir string, sc c17Scenario) string {
	var y strings.Builder
	fmt.Fprintf(&y, "dbPath: %s\nfans:\n", filepath.Join(dir, "db", "fan2go.db"))
	nf := 0
	for _, e := range sc.Entries {
		if e.Kind != "fan" {
			continue
		}
		nf++
		fmt.Fprintf(&y, "  - id: %s\n    hwmon:\n      platform: \"%s\"\n", e.Id, e.Platform)
		if e.Index > 0 {
			fmt.Fprintf(&y, "      index: %d\n", e.Index)
		} else {
			fmt.Fprintf(&y, "      rpmChannel: %d\n", e.RpmChannel)
		}
		if e.PwmChannel > 0 {
			fmt.Fprintf(&y, "      pwmChannel: %d\n", e.PwmChannel)
		}
		fmt.Fprintf(&y, "    curve: c1\n")
	}
	if nf == 0 {
		y.WriteString("  - id: dummy\n    file:\n      path: " + filepath.Join(dir, "dummy_pwm") + "\n    curve: c1\n")
		_ = os.WriteFile(filepath.Join(dir, "dummy_pwm"), []byte("1\n"), 0644)
	}
	y.WriteString("sensors:\n  - id: filesensor\n    file:\n      path: " + filepath.Join(dir, "ftemp") + "\n")
	_ = os.WriteFile(filepath.Join(dir, "ftemp"), []byte("41000\n"), 0644)
	for _, e := range sc.Entries {
		if e.Kind == "sensor" {
			fmt.Fprintf(&y, "  - id: %s\n    hwmon:\n      platform: \"%s\"\n      index: %d\n", e.Id, e.Platform, e.Index)
		}
	}
	y.WriteString("curves:\n  - id: c1\n    linear:\n      sensor: filesensor\n      min: 30\n      max: 80\n")
	return y.String()
}

func TestC17Cli(t *testing.T) {
	st := sim.NewStats("C17")
	defer st.Flush()
	bin := os.Getenv("VERIF_FAN2GO_BIN")
	if bin == "" {
		t.Skip("VERIF_FAN2GO_BIN not set")
	}
	n := envInt("VERIF_C17_CLI_CASES", 12)
	base := envInt("VERIF_SEED", 1)*1000 + envInt("VERIF_SHARD", 0)*100
	g := rapid.Custom(genC17)
	for ci := 0; ci < n; ci++ {
		sc := g.Example(base + ci)
		root, err := os.MkdirTemp(sim.WorkDir(), "c17cli-")
		if err != nil {
			t.Fatal(err)
		}
		tree := filepath.Join(root, "hwmon")
		os.MkdirAll(tree, 0755)
		vals := c17Tree(tree, sc, sc.Order)
		cfgPath := filepath.Join(root, "fan2go.yaml")
		_ = os.WriteFile(cfgPath, []byte(c17CliConfig(root, sc)), 0644)
		run := func(timeout time.Duration, args ...string) (string, string, error) {
			cmd := exec.Command(bin, append([]string{"-c", cfgPath, "--no-style", "--no-color"}, args...)...)
			cmd.Env = append(os.Environ(), "FAN2GO_VERIF_HWMON_ROOT="+tree, "HOME="+root)
			var so, se strings.Builder
			cmd.Stdout, cmd.Stderr = &so, &se
			if err := cmd.Start(); err != nil {
				return "", "", err
			}
			done := make(chan error, 1)
			go func() { done <- cmd.Wait() }()
			select {
			case err := <-done:
				return so.String(), se.String(), err
			case <-time.After(timeout):
				_ = cmd.Process.Kill()
				<-done
				return so.String(), se.String(), fmt.Errorf("timeout")
			}
		}
		var vs []sim.Violation
		add := func(k, m string) {
			if len(vs) < 4 {
				vs = append(vs, sim.Violation{Key: k, Msg: m})
			}
		}
		printed := func(out string) (int, bool) {
			m := numRe.FindStringSubmatch(strings.TrimSpace(out))
			if m == nil {
				return 0, false
			}
			v, _ := strconv.Atoi(m[1])
			return v, true
		}
		allExist := true
		for _, e := range sc.Entries {
			if !e.Exists {
				allExist = false
			}
			var want int
			var args []string
			if e.Kind == "sensor" {
				args = []string{"sensor", "--id", e.Id}
				if e.Exists {
					temps := append([]int{}, sc.Chips[e.Chip].Temps...)
					sort.Ints(temps)
					want = vals[filepath.Join(tree, sc.Chips[e.Chip].Dir, fmt.Sprintf("temp%d_input", temps[e.Index-1]))]
				}
			} else {
				args = []string{"fan", "--id", e.Id, "rpm"}
				if e.Exists {
					fs := append([]int{}, sc.Chips[e.Chip].Fans...)
					sort.Ints(fs)
					ch := e.RpmChannel
					if ch == 0 {
						ch = fs[e.Index-1]
					}
					want = vals[filepath.Join(tree, sc.Chips[e.Chip].Dir, fmt.Sprintf("fan%d_input", ch))]
				}
			}
			so, se, err := run(20*time.Second, args...)
			if strings.Contains(se+so, "nil pointer") || strings.Contains(se+so, "panic:") {
				add("cli-panics", fmt.Sprintf("`%s` for entry %+v: %s", strings.Join(args, " "), e, clip(se)))
				continue
			}
			got, ok := printed(so)
			if e.Exists {
				if err != nil || !ok || got != want {
					add("cli-reads-wrong-device", fmt.Sprintf("`%s` for entry %+v printed %q (err %v), the named device holds %d", strings.Join(args, " "), e, strings.TrimSpace(so), err, want))
				}
			} else if ok {
				// a number that is some other device's unique value = silently bound to a different device
				for p, v := range vals {
					if v == got {
						add("cli-binds-different-device", fmt.Sprintf("`%s` for the unmatched entry %+v printed %d, which is the value of %s", strings.Join(args, " "), e, got, p))
					}
				}
			}
		}
		// the daemon's own start-up path
		if !allExist {
			so, se, err := run(20 * time.Second)
			all := so + se
			named := false
			for _, e := range sc.Entries {
				if !e.Exists && strings.Contains(all, e.Id) {
					named = true
				}
			}
			switch {
			case strings.Contains(all, "nil pointer dereference"):
				add("daemon-startup-nil-deref", clip(all))
			case err == nil || fmt.Sprint(err) == "timeout":
				add("daemon-starts-with-unmatched-entry", fmt.Sprintf("the daemon kept running although an entry names no device (err %v)", err))
			case !named:
				add("daemon-error-does-not-name-the-entry", fmt.Sprintf("start-up failed without naming the unmatched entry: %s", clip(all)))
			}
		}
		os.RemoveAll(root)
		st.Case(sc, len(sc.Chips) >= 2, "cli-tier")
		if fail := st.Judge(vs); len(fail) > 0 {
			st.SaveReplay("TestC17Cli", sc, fail)
			t.Fatalf("C17 (CLI): %v", fail)
		}
	}
}
