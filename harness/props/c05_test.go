package props

// C05 - external interference with a fan is undone within one control cycle.
//
// Differential twin: the same scenario without the interference script. After the cycle that
// follows an interference - and after every later cycle - (mode, pwm) of the interfered fan equal
// the twin's and the mode is manual (1). The third-party counter grows by exactly 1 in a cycle
// that follows a PWM change and by 0 in every other cycle (and never in the twin).

import (
	"fmt"
	"testing"

	"github.com/markusressel/fan2go/verifharness/sim"
	"pgregory.net/rapid"
)

type c05Scenario struct {
	Loop sim.LoopScenario `json:"loop"`
}

func genC05(t *rapid.T) c05Scenario {
	no := false
	fan, _ := genFan(t, fanOpts{neverStop: &no, alwaysRpm: false})
	sc := sim.LoopScenario{Fan: fan, Loop: genLoop(t, false), TickMs: genTick(t), RpmPollMs: 1000, RpmWindow: 10,
		Law: sim.RpmLaw{Theta: 0, Rpm: 1200}, Stop: sim.StopSpec{AtMs: -1}}
	n := rapid.IntRange(20, 80).Draw(t, "n")
	if fan.Kind == "cmd" {
		n = 20 + n/10
	}
	cur := rapid.IntRange(0, 255).Draw(t, "cv0")
	for i := 0; i < n; i++ {
		if rapid.IntRange(0, 3).Draw(t, "chg") == 0 {
			cur = rapid.IntRange(0, 255).Draw(t, "cv")
		}
		sc.Steps = append(sc.Steps, sim.Step{Curve: cur})
	}
	k := rapid.IntRange(1, 5).Draw(t, "nInt")
	for j := 0; j < k; j++ {
		// also consecutive cycles and cycle 1 (the first cycle after regulation began is index 1)
		at := rapid.OneOf(rapid.IntRange(1, n-1), rapid.SampledFrom([]int{1, 2, 3})).Draw(t, "at")
		if at >= n {
			at = n - 1
		}
		switch rapid.IntRange(0, 2).Draw(t, "what") {
		case 0:
			sc.Steps[at].IntMode = ip(rapid.SampledFrom([]int{0, 2, 3}).Draw(t, "mode"))
		case 1:
			sc.Steps[at].IntPwm = ip(rapid.IntRange(0, 255).Draw(t, "pwm"))
		default:
			sc.Steps[at].IntMode = ip(rapid.SampledFrom([]int{0, 2, 3}).Draw(t, "mode"))
			sc.Steps[at].IntPwm = ip(rapid.IntRange(0, 255).Draw(t, "pwm"))
		}
	}
	return c05Scenario{Loop: sc}
}

func runC05(t *testing.T, sc c05Scenario) verdict {
	twinSc := sc.Loop
	twinSc.Steps = make([]sim.Step, len(sc.Loop.Steps))
	for i, s := range sc.Loop.Steps {
		s.IntMode, s.IntPwm = nil, nil
		twinSc.Steps[i] = s
	}
	res := sim.RunLoop(t, sc.Loop)
	twin := sim.RunLoop(t, twinSc)
	n := len(sc.Loop.Steps)
	if len(res.Obs) != n || len(twin.Obs) != n {
		return verdict{vs: []sim.Violation{{Key: "harness", Msg: fmt.Sprintf("expected %d cycles, saw %d / twin %d (%s)", n, len(res.Obs), len(twin.Obs), res.RunErr)}}}
	}
	var vs []sim.Violation
	add := func(k, m string) {
		if len(vs) < 4 {
			vs = append(vs, sim.Violation{Key: k, Msg: m})
		}
	}
	hasMode := sc.Loop.Fan.Kind == "hwmon" && !sc.Loop.Fan.NoEnable
	effective := 0
	for i := 1; i < n; i++ {
		s := sc.Loop.Steps[i]
		o, tw := res.Obs[i], twin.Obs[i]
		before := res.Obs[i-1]
		pwmChanged := s.IntPwm != nil && devStore(sc.Loop.Fan, *s.IntPwm) != before.Pwm
		modeChanged := hasMode && s.IntMode != nil && *s.IntMode != before.Mode
		if pwmChanged || modeChanged {
			effective++
		}
		if o.Pwm != tw.Pwm {
			add("pwm-not-restored", fmt.Sprintf("cycle %d: fan at PWM %d, undisturbed twin at %d (interference pwm=%v mode=%v)", i, o.Pwm, tw.Pwm, deref(s.IntPwm), deref(s.IntMode)))
		}
		if hasMode && o.Mode != 1 {
			add("mode-not-manual", fmt.Sprintf("cycle %d: control mode %d after the cycle (interference mode=%v)", i, o.Mode, deref(s.IntMode)))
		}
		d := o.Unexp - before.Unexp
		if pwmChanged && d != 1 {
			add("third-party-change-not-counted", fmt.Sprintf("cycle %d: PWM changed %d -> %d by a third party, counter moved by %d", i, before.Pwm, *s.IntPwm, d))
		}
		if !pwmChanged && d != 0 {
			add("spurious-third-party-count", fmt.Sprintf("cycle %d: nothing touched the PWM value, counter moved by %d", i, d))
		}
		if tw.Unexp != 0 {
			add("spurious-third-party-count", fmt.Sprintf("cycle %d of the undisturbed twin: counter is %d", i, tw.Unexp))
		}
	}
	labels := []string{"kind:" + sc.Loop.Fan.Kind, "loop:" + sc.Loop.Loop.Kind}
	if sc.Loop.Fan.Quant > 1 {
		labels = append(labels, "quantiser")
	}
	return verdict{vs: vs, nontrivial: effective > 0, labels: labels, outcome: map[string]any{"effectiveInterferences": effective, "finalUnexpected": res.Obs[n-1].Unexp}}
}

// devStore: what the device holds after a third party writes v (the quantiser applies to everyone).
func devStore(f sim.FanSpec, v int) int { return v }

func deref(p *int) any {
	if p == nil {
		return nil
	}
	return *p
}

func TestC05(t *testing.T) { runProperty(t, "C05", genC05, runC05) }
