package props

// C08 - sensor smoothing stays within observed readings, converges, ignores failed reads.
//
// Sensors are created and seeded by the real internal.InitializeObjects and polled by the real
// internal.NewSensorMonitor(...).Run in a bubble, one tick at a time.
// Oracle over a_0 (seed), a_1, ... = GetMovingAvg() after each poll, x_i the good readings so far:
//   hull:        min(a_0, x...) - tau <= a_t <= max(a_0, x...) + tau,  tau = 8 * 2^-52 * max|.| + 1e-300
//   contraction: good reading c:  |a_{t+1} - c| <= (1 - 1/n) * |a_t - c| + tau
//   fault:       a_{t+1} == a_t bit for bit;   a_t is never NaN / +-Inf

import (
	"context"
	"fmt"
	"math"
	"os"
	"path/filepath"
	"strconv"
	"testing"
	"testing/synctest"
	"time"

	"github.com/markusressel/fan2go/internal"
	"github.com/markusressel/fan2go/internal/configuration"
	"github.com/markusressel/fan2go/internal/sensors"
	"github.com/markusressel/fan2go/verifharness/sim"
	"github.com/prometheus/client_golang/prometheus"
	"pgregory.net/rapid"
)

type c08Poll struct {
	Fault string  `json:"fault,omitempty"` // "" = good reading
	Val   float64 `json:"val"`
}

type c08Scenario struct {
	Kind   string    `json:"kind"` // hwmon | file-vdev | file-real | cmd
	Window int       `json:"window"`
	PollMs int       `json:"pollMs"`
	Seed   c08Poll   `json:"seed"`
	Polls  []c08Poll `json:"polls"`
}

var c08Faults = map[string][]string{
	"hwmon":     {"eio", "garbage", "empty", "missing", "blank", "nan"},
	"file-vdev": {"eio", "garbage", "empty", "missing", "blank", "nan"},
	"file-real": {"missing", "empty", "garbage", "blank", "nan", "inf", "-Inf"},
	"cmd":       {"exit1", "garbage", "empty", "nan", "inf", "-Inf", "NaN", "+inf"},
}

func genC08Poll(t *rapid.T, kind string, prev float64) c08Poll {
	if rapid.IntRange(0, 4).Draw(t, "faulty") == 0 {
		return c08Poll{Fault: rapid.SampledFrom(c08Faults[kind]).Draw(t, "fault")}
	}
	if rapid.IntRange(0, 2).Draw(t, "same") == 0 {
		return c08Poll{Val: prev}
	}
	if kind == "cmd" {
		return c08Poll{Val: rapid.OneOf(rapid.Float64Range(-50000, 150000), rapid.SampledFrom([]float64{0, -0.5, 1e-7, 37500.25, 1e12, -1e12, 1e300, 5e-324})).Draw(t, "val")}
	}
	return c08Poll{Val: float64(rapid.OneOf(rapid.IntRange(-50000, 150000), rapid.SampledFrom([]int{0, 1, -1, 100000, math.MaxInt32, math.MinInt32})).Draw(t, "val"))}
}

func genC08(t *rapid.T) c08Scenario {
	sc := c08Scenario{Kind: rapid.SampledFrom([]string{"hwmon", "hwmon", "file-vdev", "file-vdev", "file-real", "file-real", "cmd"}).Draw(t, "kind"),
		Window: rapid.SampledFrom([]int{1, 2, 3, 10, 50, 1000}).Draw(t, "window"), PollMs: rapid.SampledFrom([]int{10, 200, 1000}).Draw(t, "pollMs")}
	sc.Seed = genC08Poll(t, sc.Kind, 40000)
	n := rapid.IntRange(5, 200).Draw(t, "nPolls")
	if sc.Kind == "cmd" {
		n = rapid.IntRange(5, 40).Draw(t, "nPollsCmd")
	}
	prev := sc.Seed.Val
	for len(sc.Polls) < n {
		p := genC08Poll(t, sc.Kind, prev)
		rep := 1
		if p.Fault == "" && rapid.IntRange(0, 5).Draw(t, "stretch") == 0 {
			rep = rapid.IntRange(10, 30).Draw(t, "stretchLen") // constant stretches
		}
		for i := 0; i < rep && len(sc.Polls) < n; i++ {
			sc.Polls = append(sc.Polls, p)
		}
		if p.Fault == "" {
			prev = p.Val
		}
	}
	return sc
}

// c08Source is the thing a sensor reads from.
type c08Source struct {
	kind string
	dev  *sim.Dev
	path string
	dir  string
}

func (s *c08Source) apply(p c08Poll) {
	switch s.kind {
	case "hwmon", "file-vdev":
		s.dev.SetReadMode(map[string]int{"": sim.ReadOK, "eio": sim.ReadEIO, "garbage": sim.ReadGarbage, "empty": sim.ReadEmpty, "missing": sim.ReadMissing,
			"blank": sim.ReadBlank, "nan": sim.ReadNaN}[p.Fault]) // garbage, empty, blank, nan: content parsed by fan2go's own ReadIntFromFile
		s.dev.Set(int(p.Val))
	case "file-real":
		switch p.Fault {
		case "missing":
			os.Remove(s.path)
		case "empty":
			os.WriteFile(s.path, nil, 0644)
		case "garbage":
			os.WriteFile(s.path, []byte("n/a\n"), 0644)
		case "blank":
			os.WriteFile(s.path, []byte(" \n"), 0644)
		case "nan", "inf", "-Inf":
			os.WriteFile(s.path, []byte(p.Fault+"\n"), 0644)
		default:
			os.WriteFile(s.path, []byte(strconv.Itoa(int(p.Val))+"\n"), 0644)
		}
	case "cmd":
		out, code := "", "0"
		switch p.Fault {
		case "exit1":
			out, code = "12345", "1"
		case "garbage":
			out = "temp: n/a"
		case "empty":
		case "":
			out = strconv.FormatFloat(p.Val, 'g', -1, 64)
		default:
			out = p.Fault // nan, inf, ...
		}
		os.WriteFile(filepath.Join(s.dir, "val"), []byte(out+"\n"), 0644)
		os.WriteFile(filepath.Join(s.dir, "code"), []byte(code), 0644)
	}
}

func freshPrometheus() {
	r := prometheus.NewRegistry()
	prometheus.DefaultRegisterer = r
	prometheus.DefaultGatherer = r
}

func runC08(t *testing.T, sc c08Scenario) (v verdict) {
	var vs []sim.Violation
	add := func(k, m string) {
		if len(vs) < 4 {
			vs = append(vs, sim.Violation{Key: k, Msg: m})
		}
	}
	defer func() {
		if r := recover(); r != nil {
			v = verdict{vs: append(vs, sim.Violation{Key: "panic", Msg: fmt.Sprint(r)})}
		}
	}()
	dir, err := os.MkdirTemp(sim.WorkDir(), "c08-")
	if err != nil {
		return verdict{vs: []sim.Violation{{Key: "harness", Msg: err.Error()}}}
	}
	defer os.RemoveAll(dir)
	sim.BaseConfig()
	configuration.CurrentConfig.TempRollingWindowSize = sc.Window
	rate := time.Duration(sc.PollMs) * time.Millisecond
	configuration.CurrentConfig.TempSensorPollingRate = rate
	src := &c08Source{kind: sc.Kind, dir: dir}
	cfg := configuration.SensorConfig{ID: "sens"}
	os.Setenv("FAN2GO_VERIF_HWMON_ROOT", filepath.Join(dir, "no-chips"))
	switch sc.Kind {
	case "hwmon":
		chip := filepath.Join(dir, "hwmon", "hwmon0")
		os.MkdirAll(chip, 0755)
		os.WriteFile(filepath.Join(chip, "name"), []byte("coretemp\n"), 0644)
		os.WriteFile(filepath.Join(chip, "verif_bus"), []byte("1 0 0x0\n"), 0644)
		os.WriteFile(filepath.Join(chip, "temp1_input"), []byte("40000\n"), 0644)
		os.Setenv("FAN2GO_VERIF_HWMON_ROOT", filepath.Join(dir, "hwmon"))
		src.path = filepath.Join(chip, "temp1_input")
		src.dev = sim.NewDev(src.path, 40000)
		src.dev.Register(src.path)
		defer sim.Unregister(src.path)
		cfg.HwMon = &configuration.HwMonSensorConfig{Platform: "coretemp", Index: 1}
	case "file-vdev":
		src.path = filepath.Join(dir, "temp")
		src.dev = sim.NewDev(src.path, 40000)
		src.dev.Register(src.path)
		defer sim.Unregister(src.path)
		cfg.File = &configuration.FileSensorConfig{Path: src.path}
	case "file-real":
		src.path = filepath.Join(dir, "temp")
		cfg.File = &configuration.FileSensorConfig{Path: src.path}
	case "cmd":
		script := filepath.Join(dir, "sensor.sh")
		os.WriteFile(script, []byte("#!/bin/sh\ncat "+dir+"/val\nexit $(cat "+dir+"/code)\n"), 0755)
		cfg.Cmd = &configuration.CmdSensorConfig{Exec: script}
	}
	configuration.CurrentConfig.Sensors = []configuration.SensorConfig{cfg}
	src.apply(sc.Seed)
	freshPrometheus()
	if _, err := internal.InitializeObjects(); err != nil {
		return verdict{vs: []sim.Violation{{Key: "harness", Msg: "InitializeObjects: " + err.Error()}}}
	}
	s, ok := sensors.GetSensor("sens")
	if !ok {
		return verdict{vs: []sim.Violation{{Key: "harness", Msg: "sensor not registered"}}}
	}
	a0 := s.GetMovingAvg()
	lo, hi, mag := a0, a0, math.Abs(a0)
	if sc.Seed.Fault == "" && sc.Kind != "cmd" {
		// an integer reading seeds the average exactly
	}
	n := float64(sc.Window)
	faultAfterGood, goodSeen, nt := false, sc.Seed.Fault == "", false
	var trace []float64
	synctest.Test(t, func(st *testing.T) {
		ctx, cancel := context.WithCancel(context.Background())
		defer cancel()
		mon := internal.NewSensorMonitor(s, rate)
		done := make(chan error, 1)
		go func() { done <- mon.Run(ctx) }()
		time.Sleep(rate / 2)
		synctest.Wait()
		prev := a0
		for i, p := range sc.Polls {
			src.apply(p)
			time.Sleep(rate)
			synctest.Wait()
			a := s.GetMovingAvg()
			trace = append(trace, a)
			if math.IsNaN(a) || math.IsInf(a, 0) {
				add("nonfinite-reading-poisons-average", fmt.Sprintf("poll %d (%s %v): smoothed value is %v", i, p.Fault, p.Val, a))
				break
			}
			if p.Fault != "" {
				if math.Float64bits(a) != math.Float64bits(prev) {
					key := "failed-read-changes-average"
					if sc.Kind == "file-vdev" || sc.Kind == "file-real" {
						key = "file-sensor-error-as-zero"
					}
					add(key, fmt.Sprintf("poll %d: read fault %q moved the smoothed value %v -> %v", i, p.Fault, prev, a))
				}
				if goodSeen {
					faultAfterGood = true
				}
			} else {
				c := p.Val
				if sc.Kind != "cmd" {
					c = float64(int(p.Val))
				}
				lo, hi, mag = math.Min(lo, c), math.Max(hi, c), math.Max(mag, math.Abs(c))
				tau := 8*math.Pow(2, -52)*mag + 1e-300 // absolute floor: relative precision is meaningless among denormals
				if math.Abs(a-c) > (1-1/n)*math.Abs(prev-c)+tau {
					add("does-not-approach-reading", fmt.Sprintf("poll %d: reading %v, smoothed %v -> %v, window %d: distance %v, allowed %v", i, c, prev, a, sc.Window, math.Abs(a-c), (1-1/n)*math.Abs(prev-c)))
				}
				if faultAfterGood {
					nt = true
				}
				goodSeen = true
			}
			tau := 8*math.Pow(2, -52)*mag + 1e-300
			if a < lo-tau || a > hi+tau {
				add("outside-hull-of-readings", fmt.Sprintf("poll %d: smoothed value %v outside [%v, %v] of the initial value and all readings", i, a, lo, hi))
			}
			prev = a
			if len(vs) > 0 {
				break
			}
		}
		cancel()
		if err := <-done; err != nil {
			add("monitor-returned-error", err.Error())
		}
	})
	labels := []string{"kind:" + sc.Kind, fmt.Sprintf("window:%d", sc.Window)}
	if sc.Seed.Fault != "" {
		labels = append(labels, "faulty-seed")
	}
	return verdict{vs: vs, nontrivial: nt, labels: labels, outcome: map[string]any{"seed": a0, "last": tailF(trace, 5)}}
}

func tailF(a []float64, n int) []float64 {
	if len(a) > n {
		return a[len(a)-n:]
	}
	return a
}

func TestC08(t *testing.T) { runProperty(t, "C08", genC08, runC08) }

// TestC08Timeout - the one fault of C08's quantifier that cannot fire in fake time: a command sensor
// that hangs past its 2 s timeout. Real time, real monitor: the smoothed value must not move while
// the command hangs, and polling must resume afterwards.
func TestC08Timeout(t *testing.T) {
	st := sim.NewStats("C08")
	defer st.Flush()
	dir, err := os.MkdirTemp(sim.WorkDir(), "c08t-")
	if err != nil {
		t.Fatal(err)
	}
	defer os.RemoveAll(dir)
	for ci, window := range []int{1 + envInt("VERIF_SEED", 1)%3, 10} {
		if ci > 0 && os.Getenv("VERIF_TIER") != "thorough" {
			break
		}
		sim.BaseConfig()
		configuration.CurrentConfig.TempRollingWindowSize = window
		script := filepath.Join(dir, "sensor.sh")
		os.WriteFile(filepath.Join(dir, "val"), []byte("50000\n"), 0644)
		os.WriteFile(filepath.Join(dir, "hang"), []byte("0"), 0644)
		os.Remove(filepath.Join(dir, "hanging"))
		os.WriteFile(script, []byte("#!/bin/sh\nif [ \"$(cat "+dir+"/hang)\" = 1 ]; then echo x > "+dir+"/hanging; sleep 6; fi\ncat "+dir+"/val\n"), 0755)
		configuration.CurrentConfig.Sensors = []configuration.SensorConfig{{ID: "hang", Cmd: &configuration.CmdSensorConfig{Exec: script}}}
		os.Setenv("FAN2GO_VERIF_HWMON_ROOT", filepath.Join(dir, "none"))
		freshPrometheus()
		if _, err := internal.InitializeObjects(); err != nil {
			t.Fatal(err)
		}
		s, _ := sensors.GetSensor("hang")
		ctx, cancel := context.WithCancel(context.Background())
		done := make(chan error, 1)
		go func() { done <- internal.NewSensorMonitor(s, 100*time.Millisecond).Run(ctx) }()
		time.Sleep(700 * time.Millisecond)
		os.WriteFile(filepath.Join(dir, "hang"), []byte("1"), 0644)
		// polls are sequential: once a hanging command has started, every earlier poll has finished
		for i := 0; i < 200; i++ {
			if _, err := os.Stat(filepath.Join(dir, "hanging")); err == nil {
				break
			}
			time.Sleep(50 * time.Millisecond)
		}
		a1 := s.GetMovingAvg()
		time.Sleep(3 * time.Second)
		a2 := s.GetMovingAvg()
		os.WriteFile(filepath.Join(dir, "val"), []byte("70000\n"), 0644)
		os.WriteFile(filepath.Join(dir, "hang"), []byte("0"), 0644)
		a3 := a2
		for i := 0; i < 300 && !(a3 > a2); i++ { // up to 15 s: slowness only delays, it never fails the case
			time.Sleep(50 * time.Millisecond)
			a3 = s.GetMovingAvg()
		}
		cancel()
		select {
		case <-done:
		case <-time.After(5 * time.Second):
		}
		var vs []sim.Violation
		if math.Float64bits(a1) != math.Float64bits(a2) {
			vs = append(vs, sim.Violation{Key: "timed-out-read-changes-average", Msg: fmt.Sprintf("window %d: smoothed value moved %v -> %v while the sensor command was hanging", window, a1, a2)})
		}
		if !(a3 > a2) {
			vs = append(vs, sim.Violation{Key: "monitor-stuck-after-timeout", Msg: fmt.Sprintf("window %d: smoothed value still %v 15 s after the command recovered (reading 70000)", window, a3)})
		}
		sc := map[string]any{"window": window, "beforeHang": a1, "afterHang": a2, "afterRecovery": a3}
		st.CaseH(fmt.Sprintf("timeout-%d", window), sc, true, "kind:cmd", "fault:timeout")
		if fail := st.Judge(vs); len(fail) > 0 {
			st.SaveReplay("TestC08Timeout", sc, fail)
			t.Fatalf("C08: %v", fail)
		}
	}
}
