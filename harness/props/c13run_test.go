package props

// C13 through the daemon's own path: the fan object comes from internal.InitializeObjects (hwmon chip
// detection + UpdateFanConfigFromHwMonControllers + NewFan) and the stored RPM curve is loaded and
// attached by controller.Run - not by calling NewFan / AttachFanRpmCurveData directly as TestC13 does.
// Same reference (refBoundaries) and the same "configured limits win" oracle.

import (
	"context"
	"fmt"
	"testing"
	"testing/synctest"
	"time"

	"github.com/markusressel/fan2go/internal/configuration"
	"github.com/markusressel/fan2go/internal/controller"
	"github.com/markusressel/fan2go/verifharness/sim"
	"pgregory.net/rapid"
)

type c13RunScenario struct {
	NeverStop bool       `json:"neverStop"`
	MinPwm    *int       `json:"minPwm,omitempty"`
	StartPwm  *int       `json:"startPwm,omitempty"`
	MaxPwm    *int       `json:"maxPwm,omitempty"`
	Data      []rpmPoint `json:"data"`
}

func genC13Run(t *rapid.T) c13RunScenario {
	sc := c13RunScenario{NeverStop: rapid.Bool().Draw(t, "neverStop")}
	for {
		a := genRpmData(t)
		if len(a.Data) > 0 {
			sc.Data = a.Data
			break
		}
	}
	if rapid.Bool().Draw(t, "cfgMin") {
		sc.MinPwm = ip(rapid.IntRange(0, 120).Draw(t, "min"))
	}
	if rapid.Bool().Draw(t, "cfgStart") {
		sc.StartPwm = ip(rapid.IntRange(0, 255).Draw(t, "start"))
	}
	if rapid.Bool().Draw(t, "cfgMax") {
		sc.MaxPwm = ip(rapid.IntRange(121, 255).Draw(t, "max"))
	}
	return sc
}

func runC13Run(t *testing.T, sc c13RunScenario) (v verdict) {
	var vs []sim.Violation
	add := func(k, m string) {
		if len(vs) < 4 {
			vs = append(vs, sim.Violation{Key: k, Msg: m})
		}
	}
	c09FanCfgHook = func(fc *configuration.FanConfig) {
		fc.NeverStop = sc.NeverStop
		fc.MinPwm, fc.StartPwm, fc.MaxPwm = cp(sc.MinPwm), cp(sc.StartPwm), cp(sc.MaxPwm)
	}
	defer func() { c09FanCfgHook = nil }()
	r, err := buildC09(c09Scenario{Fan: "hwmon", Sensor: "file", Curve: "linear", NeverStop: sc.NeverStop})
	if r != nil {
		defer r.close()
	}
	if err != nil {
		return verdict{vs: []sim.Violation{{Key: "harness", Msg: err.Error()}}}
	}
	mem := sim.NewMemPersistence()
	d := map[int]float64{}
	for _, p := range sc.Data {
		d[p.Pwm] = p.Rpm
	}
	mem.Data[r.fan.GetId()] = d
	type snap struct{ Min, Start, Max int }
	var after snap
	started := false
	runErr := ""
	synctest.Test(t, func(*testing.T) {
		controller.VerifResetInitMutex()
		ctx, cancel := context.WithCancel(context.Background())
		defer cancel()
		done := make(chan error, 1)
		ctl := controller.NewFanController(mem, r.fan, sim.LoopSpec{Kind: "direct"}.Build(), configuration.CurrentConfig.ControllerAdjustmentTickRate)
		go func() { done <- ctl.Run(ctx) }()
		deadline := time.After(2 * time.Minute)
	wait:
		for {
			select {
			case e := <-done:
				if e != nil {
					runErr = e.Error()
				}
				break wait
			case <-deadline:
				break wait
			case <-time.After(100 * time.Millisecond):
				if r.probe.evals() >= 2 {
					started = true
					break wait
				}
			}
		}
		after = snap{r.fan.GetMinPwm(), r.fan.GetStartPwm(), r.fan.GetMaxPwm()}
		cancel()
		if started {
			<-done
		}
		synctest.Wait()
	})
	rs, rsOk, rm, rmOk := refBoundaries(sc.Data)
	if !started {
		// curve data without any spinning point: fan2go may refuse to run the fan; nothing to compare then
		if rsOk {
			add("daemon-path-does-not-start", fmt.Sprintf("stored curve has spinning points, yet regulation never started (Run: %q)", runErr))
		}
		return verdict{vs: vs, nontrivial: false, labels: []string{"daemon-path", "not-started"}}
	}
	for _, x := range []int{after.Min, after.Start, after.Max} {
		if x < 0 || x > 255 {
			add("limit-outside-0-255", fmt.Sprintf("daemon path: limits %v", after))
		}
	}
	if sc.StartPwm != nil && after.Start != *sc.StartPwm {
		add("configured-start-replaced", fmt.Sprintf("daemon path: startPwm %d configured, fan reports %d", *sc.StartPwm, after.Start))
	}
	if sc.MaxPwm != nil && after.Max != *sc.MaxPwm {
		add("configured-max-replaced", fmt.Sprintf("daemon path: maxPwm %d configured, fan reports %d", *sc.MaxPwm, after.Max))
	}
	if sc.NeverStop && sc.MinPwm != nil && after.Min != *sc.MinPwm {
		add("configured-min-replaced", fmt.Sprintf("daemon path: minPwm %d configured, fan reports %d", *sc.MinPwm, after.Min))
	}
	if !sc.NeverStop && after.Min != 0 {
		add("min-nonzero-without-neverstop", fmt.Sprintf("daemon path: fan without neverStop reports minimum %d", after.Min))
	}
	if sc.StartPwm == nil && rsOk && after.Start != rs {
		add("measured-start-wrong", fmt.Sprintf("daemon path: lowest stored PWM with non-zero RPM is %d, fan reports start %d (data %v)", rs, after.Start, headPts(sc.Data)))
	}
	if sc.MaxPwm == nil && rmOk && after.Max != rm {
		add("measured-max-wrong", fmt.Sprintf("daemon path: lowest stored PWM reaching the highest whole RPM is %d, fan reports max %d (data %v)", rm, after.Max, headPts(sc.Data)))
	}
	cfg := 0
	for _, p := range []*int{sc.MinPwm, sc.StartPwm, sc.MaxPwm} {
		if p != nil {
			cfg++
		}
	}
	return verdict{vs: vs, nontrivial: len(sc.Data) >= 2, labels: []string{"daemon-path", fmt.Sprintf("configured:%d", cfg)}, outcome: after}
}

func TestC13Run(t *testing.T) { runProperty(t, "C13", genC13Run, runC13Run) }
