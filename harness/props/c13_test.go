package props

// C13 - measured fan limits follow the RPM curve; configured limits always win.
//
// HwMonFan built by the real fans.NewFan with each combination of configured minPwm/startPwm/maxPwm,
// then 1..3 successive AttachFanRpmCurveData calls. Reference boundary computation on the data
// attached last: start = lowest key with floor(rpm) > 0, max = lowest key attaining max floor(rpm).

import (
	"fmt"
	"sort"
	"testing"

	"github.com/markusressel/fan2go/internal/configuration"
	"github.com/markusressel/fan2go/internal/fans"
	"github.com/markusressel/fan2go/verifharness/sim"
	"pgregory.net/rapid"
)

type rpmPoint struct {
	Pwm int     `json:"pwm"`
	Rpm float64 `json:"rpm"`
}

type c13Attach struct {
	Nil bool `json:"nil,omitempty"`
	// SameMap: the caller refreshes the map object it attached before in place and attaches it again
	// (different data, same pointer) instead of allocating a new one
	SameMap bool       `json:"sameMap,omitempty"`
	Data    []rpmPoint `json:"data"`
}

type c13Scenario struct {
	NeverStop bool        `json:"neverStop"`
	MinPwm    *int        `json:"minPwm,omitempty"`
	StartPwm  *int        `json:"startPwm,omitempty"`
	MaxPwm    *int        `json:"maxPwm,omitempty"`
	Attaches  []c13Attach `json:"attaches"`
}

func genRpmData(t *rapid.T) c13Attach {
	shape := rapid.IntRange(0, 8).Draw(t, "shape")
	if shape == 0 {
		return c13Attach{Nil: rapid.Bool().Draw(t, "nil")} // nil or empty map
	}
	var keys []int
	if rapid.IntRange(0, 4).Draw(t, "full") == 0 {
		keys = seq(0, 255)
	} else {
		n := rapid.IntRange(1, 40).Draw(t, "nKeys")
		keys = rapid.SliceOfNDistinct(rapid.IntRange(0, 255), n, n, rapid.ID[int]).Draw(t, "keys")
		sort.Ints(keys)
	}
	if shape == 1 {
		keys = keys[:1] // single point
	}
	n := len(keys)
	first := rapid.IntRange(0, n).Draw(t, "firstSpinning") // index of the first key with rpm > 0 (n: never spins)
	top := rapid.IntRange(first, n).Draw(t, "plateauFrom") // from here on the rpm is flat
	var out c13Attach
	base := float64(rapid.IntRange(1, 3000).Draw(t, "baseRpm"))
	for i, k := range keys {
		var r float64
		switch {
		case shape == 2: // all zero
			r = 0
		case i < first:
			r = 0
			if shape == 3 {
				r = rapid.SampledFrom([]float64{0, 0.2, 0.99}).Draw(t, "subOne") // below 1 RPM counts as not spinning
			}
		case i >= top:
			r = base + float64(top-first)*25
			if shape == 4 {
				r += rapid.SampledFrom([]float64{0, 0.1, 0.5, 0.9}).Draw(t, "plateauFrac") // same whole RPM, different fractions
			}
		default:
			r = base + float64(i-first)*25
			if shape == 5 && rapid.IntRange(0, 3).Draw(t, "dip") == 0 {
				r = float64(rapid.IntRange(0, int(base)).Draw(t, "dipRpm")) // dip in the middle
			}
			if shape == 6 {
				r = float64(rapid.IntRange(0, 5000).Draw(t, "anyRpm")) // arbitrary, non-monotonic
			}
		}
		out.Data = append(out.Data, rpmPoint{k, r})
	}
	return out
}

func genC13(t *rapid.T) c13Scenario {
	sc := c13Scenario{NeverStop: rapid.Bool().Draw(t, "neverStop")}
	lim := rapid.OneOf(rapid.IntRange(0, 255), rapid.SampledFrom([]int{0, 1, 254, 255}))
	if rapid.Bool().Draw(t, "cfgMin") {
		sc.MinPwm = ip(lim.Draw(t, "min"))
	}
	if rapid.Bool().Draw(t, "cfgStart") {
		sc.StartPwm = ip(lim.Draw(t, "start"))
	}
	if rapid.Bool().Draw(t, "cfgMax") {
		sc.MaxPwm = ip(lim.Draw(t, "max"))
	}
	n := rapid.IntRange(1, 3).Draw(t, "nAttach")
	for i := 0; i < n; i++ {
		a := genRpmData(t)
		a.SameMap = i > 0 && rapid.IntRange(0, 2).Draw(t, "sameMap") == 0
		sc.Attaches = append(sc.Attaches, a)
	}
	return sc
}

// refBoundaries: (start, startDefined, max, maxDefined)
func refBoundaries(d []rpmPoint) (int, bool, int, bool) {
	start, max, maxRpm := -1, -1, 0
	for _, p := range d { // ascending keys
		r := int(p.Rpm)
		if r > 0 && start < 0 {
			start = p.Pwm
		}
		if r > maxRpm {
			maxRpm, max = r, p.Pwm
		}
	}
	return start, start >= 0, max, max >= 0
}

func cp(p *int) *int {
	if p == nil {
		return nil
	}
	v := *p
	return &v
}

func runC13(t *testing.T, sc c13Scenario) (v verdict) {
	var vs []sim.Violation
	add := func(k, m string) {
		if len(vs) < 4 {
			vs = append(vs, sim.Violation{Key: k, Msg: m})
		}
	}
	defer func() {
		if r := recover(); r != nil {
			v = verdict{vs: []sim.Violation{{Key: "panic", Msg: fmt.Sprint(r)}}}
		}
	}()
	fan, err := fans.NewFan(configuration.FanConfig{ID: "c13", NeverStop: sc.NeverStop, MinPwm: cp(sc.MinPwm), StartPwm: cp(sc.StartPwm), MaxPwm: cp(sc.MaxPwm),
		HwMon: &configuration.HwMonFanConfig{Index: 1}})
	if err != nil {
		return verdict{vs: []sim.Violation{{Key: "harness", Msg: err.Error()}}}
	}
	nt := false
	type snap struct{ Min, Start, Max int }
	get := func() snap { return snap{fan.GetMinPwm(), fan.GetStartPwm(), fan.GetMaxPwm()} }
	var outcome []snap
	var prevData []rpmPoint
	var lastMap *map[int]float64
	for i, a := range sc.Attaches {
		before := get()
		var err error
		if len(a.Data) == 0 {
			if a.Nil {
				err = fan.AttachFanRpmCurveData(nil)
			} else {
				err = fan.AttachFanRpmCurveData(&map[int]float64{})
			}
			if err == nil {
				add("empty-data-accepted", fmt.Sprintf("attach %d: no measurements, yet no error", i))
			}
			if after := get(); after != before {
				add("limits-invented-from-no-data", fmt.Sprintf("attach %d: no measurements, limits changed %v -> %v", i, before, after))
			}
			outcome = append(outcome, get())
			continue
		}
		mp := &map[int]float64{}
		if a.SameMap && lastMap != nil {
			mp = lastMap
			clear(*mp)
		}
		for _, p := range a.Data {
			(*mp)[p.Pwm] = p.Rpm
		}
		lastMap = mp
		if err = fan.AttachFanRpmCurveData(mp); err != nil {
			add("attach-failed", fmt.Sprintf("attach %d: %v", i, err))
		}
		after := get()
		outcome = append(outcome, after)
		for _, x := range []int{after.Min, after.Start, after.Max} {
			if x < 0 || x > 255 {
				add("limit-outside-0-255", fmt.Sprintf("attach %d: limits %v", i, after))
			}
		}
		rs, rsOk, rm, rmOk := refBoundaries(a.Data)
		// configured limits always win
		if sc.StartPwm != nil && after.Start != *sc.StartPwm {
			add("configured-start-replaced", fmt.Sprintf("attach %d: startPwm %d configured, fan reports %d", i, *sc.StartPwm, after.Start))
		}
		if sc.MaxPwm != nil && after.Max != *sc.MaxPwm {
			add("configured-max-replaced", fmt.Sprintf("attach %d: maxPwm %d configured, fan reports %d", i, *sc.MaxPwm, after.Max))
		}
		if sc.NeverStop && sc.MinPwm != nil && after.Min != *sc.MinPwm {
			add("configured-min-replaced", fmt.Sprintf("attach %d: minPwm %d configured, fan reports %d", i, *sc.MinPwm, after.Min))
		}
		if !sc.NeverStop && after.Min != 0 {
			add("min-nonzero-without-neverstop", fmt.Sprintf("attach %d: fan without neverStop reports minimum %d", i, after.Min))
		}
		// measured limits follow the data attached last
		if sc.StartPwm == nil && rsOk && after.Start != rs {
			key := "measured-start-wrong"
			if i > 0 {
				key = "reattach-keeps-stale-start"
			}
			add(key, fmt.Sprintf("attach %d: lowest PWM with non-zero RPM is %d, fan reports start %d (data %v)", i, rs, after.Start, headPts(a.Data)))
		}
		if sc.MaxPwm == nil && rmOk && after.Max != rm {
			key := "measured-max-wrong"
			if i > 0 {
				key = "reattach-keeps-stale-max"
			}
			add(key, fmt.Sprintf("attach %d: lowest PWM reaching the highest whole RPM is %d, fan reports max %d (data %v)", i, rm, after.Max, headPts(a.Data)))
		}
		// non-trivial rule
		whole := map[int]bool{}
		for _, p := range a.Data {
			whole[int(p.Rpm)] = true
		}
		if len(whole) >= 2 && len(a.Data) >= 2 {
			nt = true
		}
		if i > 0 && prevData != nil && fmt.Sprint(prevData) != fmt.Sprint(a.Data) {
			nt = true
		}
		if (sc.StartPwm != nil && rsOk && *sc.StartPwm != rs) || (sc.MaxPwm != nil && rmOk && *sc.MaxPwm != rm) {
			nt = true
		}
		prevData = a.Data
	}
	labels := []string{fmt.Sprintf("attaches:%d", len(sc.Attaches))}
	cfg := 0
	for _, p := range []*int{sc.MinPwm, sc.StartPwm, sc.MaxPwm} {
		if p != nil {
			cfg++
		}
	}
	labels = append(labels, fmt.Sprintf("configured:%d", cfg))
	return verdict{vs: vs, nontrivial: nt, labels: labels, outcome: outcome}
}

func headPts(d []rpmPoint) []rpmPoint {
	if len(d) > 8 {
		return d[:8]
	}
	return d
}

func TestC13(t *testing.T) { runProperty(t, "C13", genC13, runC13) }
