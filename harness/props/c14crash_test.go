package props

// C14 (crash tier) - a worker process executing a generated sequence of saves/deletes through the
// real persistence API is killed with SIGKILL at a drawn instant; a fresh process then reads
// everything back. Oracle: the database opens, and its content equals the model after all completed
// operations, with the operation in flight at the moment of the kill applied entirely or not at all.

import (
	"bufio"
	"encoding/json"
	"fmt"
	"os"
	"os/exec"
	"path/filepath"
	"strconv"
	"strings"
	"syscall"
	"testing"
	"time"

	"github.com/markusressel/fan2go/verifharness/sim"
	"pgregory.net/rapid"
)

type c14wOp struct {
	Op   string          `json:"op"`
	Id   string          `json:"id"`
	Data map[int]float64 `json:"data,omitempty"`
	Map  map[int]int     `json:"map,omitempty"`
}

type c14CrashScenario struct {
	Ops     []c14wOp `json:"ops"`
	KillAt  int      `json:"killAtBegin"` // kill when "begin KillAt" was announced ... (-1: by time)
	DelayUs int      `json:"delayUs"`     // ... plus this many microseconds (or: this long after the start)
}

func genC14Crash(t *rapid.T) c14CrashScenario {
	var sc c14CrashScenario
	n := rapid.IntRange(2, 14).Draw(t, "nOps")
	for i := 0; i < n; i++ {
		op := c14wOp{Op: rapid.SampledFrom([]string{"saveData", "saveData", "saveMap", "saveMap", "deleteData", "deleteMap"}).Draw(t, "op"),
			Id: rapid.SampledFrom([]string{"fan", "fan1", "fa"}).Draw(t, "id")}
		switch op.Op {
		case "saveData":
			op.Data = genC14Data(t)
			// large values make the write (and the window in which a kill can land inside it) longer
			if rapid.IntRange(0, 2).Draw(t, "big") == 0 {
				for k := 0; k < 3000; k++ {
					op.Data[k+2000] = float64(k) + 0.5
				}
			}
		case "saveMap":
			op.Map = genC14Map(t)
		}
		sc.Ops = append(sc.Ops, op)
	}
	if rapid.IntRange(0, 3).Draw(t, "byTime") == 0 {
		sc.KillAt = -1
		sc.DelayUs = rapid.IntRange(0, 60000).Draw(t, "delayUs")
	} else {
		sc.KillAt = rapid.IntRange(0, n-1).Draw(t, "killAt")
		sc.DelayUs = rapid.OneOf(rapid.IntRange(0, 3000), rapid.SampledFrom([]int{0, 50, 200, 500, 1000, 2000})).Draw(t, "delayUs")
	}
	return sc
}

type c14Dump struct {
	Data map[string]map[int]float64 `json:"data"`
	Maps map[string]map[int]int     `json:"maps"`
	Errs []string                   `json:"errs"`
}

func c14Apply(ops []c14wOp, n int) c14Dump {
	m := c14Dump{Data: map[string]map[int]float64{}, Maps: map[string]map[int]int{}}
	for _, op := range ops[:n] {
		switch op.Op {
		case "saveData":
			m.Data[op.Id] = op.Data
		case "saveMap":
			m.Maps[op.Id] = op.Map
		case "deleteData":
			delete(m.Data, op.Id)
		case "deleteMap":
			delete(m.Maps, op.Id)
		}
	}
	return m
}

func c14Equal(a, b c14Dump) bool {
	if len(a.Data) != len(b.Data) || len(a.Maps) != len(b.Maps) {
		return false
	}
	for k, v := range a.Data {
		w, ok := b.Data[k]
		if !ok || !sameData(v, w) {
			return false
		}
	}
	for k, v := range a.Maps {
		w, ok := b.Maps[k]
		if !ok || !sameMap(v, w) {
			return false
		}
	}
	return true
}

func runC14Crash(t *testing.T, sc c14CrashScenario) verdict {
	bin := os.Getenv("VERIF_WORKER_BIN")
	if bin == "" {
		return verdict{vs: []sim.Violation{{Key: "harness", Msg: "VERIF_WORKER_BIN not set"}}}
	}
	dir, err := os.MkdirTemp(sim.WorkDir(), "c14c-")
	if err != nil {
		return verdict{vs: []sim.Violation{{Key: "harness", Msg: err.Error()}}}
	}
	defer os.RemoveAll(dir)
	db := filepath.Join(dir, "fan2go.db")
	opsFile, idsFile := filepath.Join(dir, "ops.json"), filepath.Join(dir, "ids.json")
	b, _ := json.Marshal(sc.Ops)
	_ = os.WriteFile(opsFile, b, 0644)
	_ = os.WriteFile(idsFile, []byte(`["fan","fan1","fa"]`), 0644)
	cmd := exec.Command(bin, "run", db, opsFile)
	stdout, _ := cmd.StdoutPipe()
	if err := cmd.Start(); err != nil {
		return verdict{vs: []sim.Violation{{Key: "harness", Msg: err.Error()}}}
	}
	lines := make(chan string, 1000)
	go func() {
		sc := bufio.NewScanner(stdout)
		for sc.Scan() {
			lines <- sc.Text()
		}
		close(lines)
	}()
	lastBegin, lastEnd := -1, -1
	note := func(l string) {
		f := strings.Fields(l)
		if len(f) >= 2 {
			n, _ := strconv.Atoi(f[1])
			switch f[0] {
			case "begin":
				lastBegin = n
			case "end":
				lastEnd = n
			}
		}
	}
	killed := false
	kill := func() { _ = cmd.Process.Signal(syscall.SIGKILL); killed = true }
	if sc.KillAt < 0 {
		timer := time.After(time.Duration(sc.DelayUs) * time.Microsecond)
	loop1:
		for {
			select {
			case l, ok := <-lines:
				if !ok {
					break loop1
				}
				note(l)
			case <-timer:
				kill()
				break loop1
			}
		}
	} else {
		for l := range lines {
			note(l)
			if lastBegin == sc.KillAt && strings.HasPrefix(l, "begin") {
				if sc.DelayUs > 0 {
					t0 := time.Now()
					for time.Since(t0) < time.Duration(sc.DelayUs)*time.Microsecond {
					} // spin: sleeping is far too coarse here
				}
				kill()
				break
			}
		}
	}
	// everything the worker announced before it died is still in the pipe
	for l := range lines {
		note(l)
	}
	_ = cmd.Wait()
	// a fresh process reads everything back
	out, err := exec.Command(bin, "dump", db, idsFile).Output()
	var got c14Dump
	var vs []sim.Violation
	if err != nil || json.Unmarshal(out, &got) != nil {
		vs = append(vs, sim.Violation{Key: "database-unreadable-after-kill", Msg: fmt.Sprintf("dump failed: %v %s", err, out)})
		return verdict{vs: vs}
	}
	if len(got.Errs) > 0 {
		vs = append(vs, sim.Violation{Key: "load-error-after-kill", Msg: strings.Join(got.Errs, "; ")})
	}
	before := c14Apply(sc.Ops, lastEnd+1)
	inFlight := lastBegin > lastEnd
	okState := c14Equal(got, before)
	if inFlight && !okState {
		okState = c14Equal(got, c14Apply(sc.Ops, lastBegin+1))
	}
	if !okState {
		vs = append(vs, sim.Violation{Key: "torn-or-lost-update-after-kill", Msg: fmt.Sprintf("killed with op %d in flight=%v (last completed %d): database holds data=%v maps=%v, model before=%v", lastBegin, inFlight, lastEnd, keysD(got.Data), keysM(got.Maps), keysD(before.Data))})
	}
	labels := []string{}
	if !killed {
		labels = append(labels, "worker-finished-before-kill")
	} else if inFlight {
		labels = append(labels, "killed-inside-an-operation")
	} else {
		labels = append(labels, "killed-between-operations")
	}
	return verdict{vs: vs, nontrivial: killed && inFlight, labels: labels, outcome: map[string]any{"lastBegin": lastBegin, "lastEnd": lastEnd, "killed": killed}}
}

func keysD(m map[string]map[int]float64) []string {
	var out []string
	for k, v := range m {
		out = append(out, fmt.Sprintf("%s(%d)", k, len(v)))
	}
	return out
}
func keysM(m map[string]map[int]int) []string {
	var out []string
	for k, v := range m {
		out = append(out, fmt.Sprintf("%s(%d)", k, len(v)))
	}
	return out
}

func TestC14Crash(t *testing.T) { runProperty(t, "C14", genC14Crash, runC14Crash) }
