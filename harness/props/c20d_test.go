package props

// C20 (daemon tier, thorough) - the real fan2go binary built with -race runs on a fake hwmon tree
// with the REST API and the Prometheus exporter on loopback ports and aggressive rates, while this
// test polls every endpoint concurrently; afterwards it is stopped with SIGTERM. The daemon's stderr
// (race reports, fatal errors) is copied to this test's stderr after a C20-CASE line, so the driver
// judges it exactly like the in-process tier. Catches what only real OS timing reaches: the HTTP
// server goroutines, the signal path, fatal "concurrent map" aborts.

import (
	"bytes"
	"encoding/json"
	"fmt"
	"io"
	"net"
	"net/http"
	"os"
	"os/exec"
	"path/filepath"
	"strings"
	"sync"
	"sync/atomic"
	"syscall"
	"testing"
	"time"

	"github.com/markusressel/fan2go/internal/configuration"
	"github.com/markusressel/fan2go/internal/fans"
	"github.com/markusressel/fan2go/internal/persistence"
	"github.com/markusressel/fan2go/verifharness/sim"
)

type c20dScenario struct {
	Tier    string `json:"tier"`
	Fans    int    `json:"fans"`
	Shared  bool   `json:"sharedCurve"`
	PidFn   bool   `json:"pidInsideFunction"`
	Stalled bool   `json:"stalledFan"`
	Seconds int    `json:"seconds"`
}

func freePort() int {
	l, err := net.Listen("tcp", "127.0.0.1:0")
	if err != nil {
		return 0
	}
	defer l.Close()
	return l.Addr().(*net.TCPAddr).Port
}

func runC20Daemon(t *testing.T, sc c20dScenario, st *sim.Stats) {
	bin := os.Getenv("VERIF_FAN2GO_BIN")
	if bin == "" {
		t.Skip("VERIF_FAN2GO_BIN not set")
	}
	dir, err := os.MkdirTemp(sim.WorkDir(), "c20d-")
	if err != nil {
		t.Fatal(err)
	}
	defer os.RemoveAll(dir)
	w := func(p, v string) { _ = os.WriteFile(p, []byte(v+"\n"), 0644) }
	tree := filepath.Join(dir, "hwmon")
	fchip, tchip := filepath.Join(tree, "hwmon0"), filepath.Join(tree, "hwmon1")
	os.MkdirAll(fchip, 0755)
	os.MkdirAll(tchip, 0755)
	w(filepath.Join(fchip, "name"), "nct6798")
	w(filepath.Join(fchip, "verif_bus"), "1 0 0x290")
	w(filepath.Join(tchip, "name"), "coretemp")
	w(filepath.Join(tchip, "verif_bus"), "1 0 0x0")
	w(filepath.Join(tchip, "temp1_input"), "45000")
	w(filepath.Join(tchip, "temp2_input"), "52000")
	apiPort, statPort := freePort(), freePort()
	dbPath := filepath.Join(dir, "db", "fan2go.db")
	pers := persistence.NewPersistence(dbPath)
	_ = pers.Init()
	var y strings.Builder
	fmt.Fprintf(&y, "dbPath: %s\ntempSensorPollingRate: 5ms\nrpmPollingRate: 7ms\ncontrollerAdjustmentTickRate: 11ms\ntempRollingWindowSize: 3\nrpmRollingWindowSize: 3\n", dbPath)
	fmt.Fprintf(&y, "api:\n  enabled: true\n  host: 127.0.0.1\n  port: %d\nstatistics:\n  enabled: true\n  port: %d\nfans:\n", apiPort, statPort)
	var rpmFiles []string
	for i := 0; i < sc.Fans; i++ {
		id := fmt.Sprintf("fan%d", i)
		curve := "c_lin"
		if !sc.Shared && i%2 == 1 {
			curve = "c_fn"
		}
		rpm := "1300"
		if sc.Stalled && i == 0 {
			rpm = "0"
		}
		if i%3 == 2 {
			p := filepath.Join(dir, "file_"+id)
			w(p, "90")
			w(p+"_rpm", rpm)
			rpmFiles = append(rpmFiles, p+"_rpm")
			fmt.Fprintf(&y, "  - id: %s\n    file:\n      path: %s\n      rpmPath: %s_rpm\n", id, p, p)
		} else {
			ch := i + 1
			w(filepath.Join(fchip, fmt.Sprintf("fan%d_input", ch)), rpm)
			w(filepath.Join(fchip, fmt.Sprintf("pwm%d", ch)), "100")
			w(filepath.Join(fchip, fmt.Sprintf("pwm%d_enable", ch)), "2")
			rpmFiles = append(rpmFiles, filepath.Join(fchip, fmt.Sprintf("fan%d_input", ch)))
			fmt.Fprintf(&y, "  - id: %s\n    hwmon:\n      platform: nct6798\n      rpmChannel: %d\n", id, ch)
		}
		fmt.Fprintf(&y, "    neverStop: %v\n    curve: %s\n    minPwm: 10\n    maxPwm: 240\n    pwmMap:\n      0: 0\n      255: 255\n", i == 0, curve)
		if i%2 == 0 {
			fmt.Fprintf(&y, "    controlAlgorithm: direct\n")
		}
		twin, _ := fans.NewFan(configuration.FanConfig{ID: id, HwMon: &configuration.HwMonFanConfig{}})
		d := map[int]float64{}
		for k := 0; k <= 255; k++ {
			d[k] = float64(k * 10)
		}
		_ = twin.AttachFanRpmCurveData(&d)
		_ = pers.SaveFanPwmData(twin)
	}
	fmt.Fprintf(&y, "sensors:\n  - id: s1\n    hwmon:\n      platform: coretemp\n      index: 1\n  - id: s2\n    hwmon:\n      platform: coretemp\n      index: 2\n")
	fmt.Fprintf(&y, "curves:\n  - id: c_lin\n    linear:\n      sensor: s1\n      min: 30\n      max: 80\n  - id: c_pid\n    pid:\n      sensor: s2\n      setPoint: 50\n      p: -0.05\n      i: -0.005\n      d: -0.006\n")
	members := "[ c_lin, c_lin ]"
	if sc.PidFn {
		members = "[ c_lin, c_pid ]"
	}
	fmt.Fprintf(&y, "  - id: c_fn\n    function:\n      type: maximum\n      curves: %s\n", members)
	cfgPath := filepath.Join(dir, "fan2go.yaml")
	_ = os.WriteFile(cfgPath, []byte(y.String()), 0644)

	b, _ := json.Marshal(sc)
	fmt.Fprintf(os.Stderr, "\nC20-CASE %s\n", b)
	cmd := exec.Command(bin, "-c", cfgPath, "--no-style", "--no-color")
	cmd.Env = append(os.Environ(), "FAN2GO_VERIF_HWMON_ROOT="+tree, "HOME="+dir, "GORACE=halt_on_error=0")
	var stderr bytes.Buffer
	cmd.Stderr = &stderr
	cmd.Stdout = io.Discard
	if err := cmd.Start(); err != nil {
		t.Fatal(err)
	}
	exited := make(chan error, 1)
	go func() { exited <- cmd.Wait() }()
	var nReq, nOK atomic.Int64
	stop := make(chan struct{})
	var wg sync.WaitGroup
	paths := []string{"/fan/", "/sensor/", "/curve/", "/fan/fan0/", "/sensor/s1/", "/curve/c_lin/", "/curve/c_fn/", "/alive/"}
	client := &http.Client{Timeout: 2 * time.Second}
	poll := func(url string) {
		defer wg.Done()
		for {
			select {
			case <-stop:
				return
			default:
			}
			nReq.Add(1)
			resp, err := client.Get(url)
			if err == nil {
				_, _ = io.Copy(io.Discard, resp.Body)
				resp.Body.Close()
				nOK.Add(1)
			} else {
				time.Sleep(20 * time.Millisecond)
			}
		}
	}
	for _, p := range paths {
		wg.Add(1)
		go poll(fmt.Sprintf("http://127.0.0.1:%d%s", apiPort, p))
	}
	for i := 0; i < 2; i++ {
		wg.Add(1)
		go poll(fmt.Sprintf("http://127.0.0.1:%d/metrics", statPort))
	}
	deadline := time.After(time.Duration(sc.Seconds) * time.Second)
	tick := time.NewTicker(300 * time.Millisecond)
	k := 0
	gone := false
loop:
	for {
		select {
		case <-deadline:
			break loop
		case <-exited:
			gone = true // the daemon ended by itself
			break loop
		case <-tick.C:
			k++
			w(filepath.Join(tchip, "temp1_input"), fmt.Sprint(40000+(k*3700)%40000))
			w(filepath.Join(tchip, "temp2_input"), fmt.Sprint(45000+(k*2300)%30000))
			if sc.Stalled && k == 10 {
				w(rpmFiles[0], "900")
			}
		}
	}
	tick.Stop()
	close(stop)
	wg.Wait()
	if !gone {
		_ = cmd.Process.Signal(syscall.SIGTERM)
		select {
		case <-exited:
		case <-time.After(30 * time.Second):
			_ = cmd.Process.Kill()
			<-exited
		}
	} else {
		fmt.Fprintf(os.Stderr, "C20-DAEMON-EXITED-EARLY %v\n", cmd.ProcessState)
	}
	out := stderr.String()
	// the daemon's race reports and fatal errors become part of this worker's log
	fmt.Fprintln(os.Stderr, out)
	st.Case(map[string]any{"scenario": sc, "requests": nReq.Load(), "answered": nOK.Load()}, nOK.Load() >= 50, "daemon-tier")
	st.Add("daemon_http_requests_answered", nOK.Load())
}

func TestC20Daemon(t *testing.T) {
	st := sim.NewStats("C20")
	defer st.Flush()
	n := envInt("VERIF_C20_DAEMON_RUNS", 1)
	seed := envInt("VERIF_SEED", 1) + envInt("VERIF_SHARD", 0)*7
	for i := 0; i < n; i++ {
		x := seed + i
		runC20Daemon(t, c20dScenario{Tier: "daemon", Fans: 2 + x%3, Shared: x%2 == 0, PidFn: x%3 != 0, Stalled: x%4 == 1, Seconds: 8 + x%5}, st)
	}
}
