package props

// Native coverage-guided fuzz targets (thorough tier only). Each decodes the byte string into the
// same scenario type as the rapid property of its unit and judges it with the same oracle; a
// crasher is written as a scenario JSON replay, so the reproducible unit is that file, not the
// fuzzer's corpus entry.

import (
	"encoding/binary"
	"math"
	"os"
	"sort"
	"testing"

	"github.com/markusressel/fan2go/verifharness/sim"
)

type byteSrc struct {
	b []byte
	i int
}

func (s *byteSrc) u8() int {
	if s.i >= len(s.b) {
		return 0
	}
	v := s.b[s.i]
	s.i++
	return int(v)
}
func (s *byteSrc) u16() int { return s.u8()<<8 | s.u8() }
func (s *byteSrc) f64() float64 {
	var buf [8]byte
	for i := range buf {
		buf[i] = byte(s.u8())
	}
	v := math.Float64frombits(binary.LittleEndian.Uint64(buf[:]))
	if math.IsNaN(v) || math.IsInf(v, 0) {
		return 0
	}
	return v
}

func fuzzReport(t *testing.T, prop, unit string, sc any, vs []sim.Violation) {
	st := sim.NewStats(prop)
	if fail := st.Judge(vs); len(fail) > 0 {
		if os.Getenv("VERIF_REPLAY_OUT") != "" {
			st.SaveReplay(unit, sc, fail)
		}
		t.Fatalf("%s: %v", prop, fail)
	}
}

// FuzzC12: bytes -> PWM map + requests, judged against the brute-force nearest-supported reference.
func FuzzC12(f *testing.F) {
	f.Add([]byte{3, 0, 0, 64, 128, 192, 255, 10, 200})
	f.Add([]byte{1, 255, 255, 0})
	f.Add([]byte{12, 0, 0, 1, 0, 2, 1, 3, 1, 50, 2, 51, 2, 100, 100, 128, 3, 129, 3, 200, 4, 254, 4, 255, 255, 127, 128, 129})
	f.Fuzz(func(t *testing.T, data []byte) {
		s := &byteSrc{b: data}
		n := s.u8()%40 + 1
		m := map[int]int{}
		for i := 0; i < n; i++ {
			m[s.u8()] = s.u8()
		}
		var reqs []int
		for s.i < len(s.b) && len(reqs) < 64 {
			reqs = append(reqs, s.u16()%356-50)
		}
		if len(reqs) == 0 {
			reqs = []int{0, 127, 255}
		}
		vs, _, _ := c12CheckMap(m, reqs)
		fuzzReport(t, "C12", "TestC12Pure", c12Pure{Map: m, Reqs: reqs}, vs)
	})
}

// FuzzC06: bytes -> one steps curve (or min/max curve) wrapped in a function node + readings,
// judged by the reference evaluator of C06.
func FuzzC06(f *testing.F) {
	f.Add([]byte{0, 3, 40, 0, 50, 50, 80, 255, 1, 2, 3, 4, 5, 6, 7, 8})
	f.Add([]byte{1, 40, 80, 0, 0, 0, 0, 0, 0, 0xf0, 0x3f})
	f.Fuzz(func(t *testing.T, data []byte) {
		s := &byteSrc{b: data}
		var leaf curveNode
		if s.u8()%2 == 0 {
			leaf.Kind = "steps"
			n := s.u8()%10 + 1
			seen := map[int]bool{}
			for i := 0; i < n; i++ {
				tp := s.u8() - 40
				if seen[tp] {
					continue
				}
				seen[tp] = true
				sp := float64(s.u8())
				if s.u8()%4 == 0 {
					sp = math.Min(255, sp+[]float64{0.5, 0.49999999999999, 0.25, 0.999}[s.u8()%4])
				}
				leaf.Steps = append(leaf.Steps, stepPair{tp, sp})
			}
			if len(leaf.Steps) == 0 {
				leaf.Steps = []stepPair{{40, 100}}
			}
			sort.Slice(leaf.Steps, func(i, j int) bool { return leaf.Steps[i].Temp < leaf.Steps[j].Temp })
		} else {
			leaf.Kind = "minmax"
			leaf.Min = s.u8() - 50
			leaf.Max = leaf.Min + 1 + s.u8()%100
		}
		sc := c06Scenario{Sensors: 1, Nodes: []curveNode{leaf, {Kind: "function", Fn: fnAll[s.u8()%len(fnAll)], Members: []int{0, 0}}}}
		for k := 0; k < 6; k++ {
			var v float64
			if s.u8()%2 == 0 {
				v = float64(s.u16()*10 - 60000)
			} else {
				v = s.f64()
			}
			sc.Evals = append(sc.Evals, evalStep{Vals: []float64{v}, DtMs: 200})
		}
		v := runC06(t, sc)
		fuzzReport(t, "C06", "TestC06", sc, v.vs)
	})
}
