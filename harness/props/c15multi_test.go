package props

// C15 (several fans in one daemon) - all fans of a daemon share one database file and, after the
// same start-up wait, all open it at the same instant. A second start of such a daemon must not
// analyse any fan again: a database access that merely has to wait for another controller must not
// be mistaken for "no stored data".

import (
	"context"
	"fmt"
	"os"
	"path/filepath"
	"testing"
	"testing/synctest"
	"time"

	"github.com/markusressel/fan2go/internal/controller"
	"github.com/markusressel/fan2go/internal/persistence"
	"github.com/markusressel/fan2go/verifharness/sim"
	"pgregory.net/rapid"
)

type c15MultiScenario struct {
	Kinds  []string `json:"kinds"` // hwmon | file
	Quant  []int    `json:"quant"`
	Starts int      `json:"starts"`
}

func genC15Multi(t *rapid.T) c15MultiScenario {
	n := rapid.IntRange(2, 5).Draw(t, "nFans")
	sc := c15MultiScenario{Starts: rapid.IntRange(2, 4).Draw(t, "starts")}
	for i := 0; i < n; i++ {
		sc.Kinds = append(sc.Kinds, rapid.SampledFrom([]string{"hwmon", "file", "file"}).Draw(t, "kind"))
		sc.Quant = append(sc.Quant, rapid.SampledFrom([]int{0, 0, 16, 51}).Draw(t, "quant"))
	}
	return sc
}

func runC15Multi(t *testing.T, sc c15MultiScenario) verdict {
	dbPath := filepath.Join(sim.WorkDir(), "c15multi.db")
	_ = os.Remove(dbPath)
	defer os.Remove(dbPath)
	var vs []sim.Violation
	type row struct {
		Start, Fan, PreWrites int
		Sweep, Measurement    bool
	}
	var rows []row
	origPwm := make([]int, len(sc.Kinds))
	for i := range origPwm {
		origPwm[i] = 100
	}
	for start := 0; start < sc.Starts; start++ {
		sim.BaseConfig()
		var rigs []*sim.Rig
		for i, k := range sc.Kinds {
			spec := sim.FanSpec{Kind: k, OrigMode: 2, OrigPwm: origPwm[i], Quant: sc.Quant[i], NoStored: true, NoRpm: k == "file"}
			rigs = append(rigs, sim.BuildRig(spec, i, sim.RpmLaw{Theta: 0, Rpm: 1200}, 120))
		}
		synctest.Test(t, func(st *testing.T) {
			controller.VerifResetInitMutex()
			t0 := time.Now()
			ctx, cancel := context.WithCancel(context.Background())
			defer cancel()
			done := make(chan error, len(rigs))
			settled := make(chan struct{}, len(rigs))
			for _, r := range rigs {
				for _, d := range []*sim.Dev{r.Pwm, r.Enable, r.Rpm} {
					d.SetT0(t0)
				}
				r.Curve.Rebase(t0)
				// every controller gets its own Persistence value on the shared file, as in the daemon
				ctl := controller.NewFanController(persistence.NewPersistence(dbPath), r.Fan, sim.LoopSpec{Kind: "direct"}.Build(), 200*time.Millisecond)
				ret := make(chan struct{})
				go func() { err := ctl.Run(ctx); close(ret); done <- err }()
				// a fan is settled when it regulates or when its controller gave up
				go func() {
					select {
					case <-r.Curve.FirstEval:
					case <-ret:
					}
					settled <- struct{}{}
				}()
			}
			deadline := time.After(3 * time.Hour)
		wait:
			for range rigs {
				select {
				case <-settled:
				case <-deadline:
					break wait
				}
			}
			synctest.Wait()
			cancel()
			for range rigs {
				<-done
			}
		})
		for i, r := range rigs {
			first := r.Curve.FirstAt()
			var pre []sim.WriteRec
			for _, w := range r.Pwm.Writes(0) {
				if first > 0 && w.T >= first {
					break
				}
				pre = append(pre, w)
			}
			sweep, meas, _ := classifyWrites(pre)
			rows = append(rows, row{start, i, len(pre), sweep, meas})
			if first == 0 {
				vs = append(vs, sim.Violation{Key: "fan-never-regulated", Msg: fmt.Sprintf("start %d: fan %d never reached regulation", start, i)})
			}
			if start > 0 && (sweep || meas) && len(vs) < 3 {
				vs = append(vs, sim.Violation{Key: "stored-data-ignored-under-contention", Msg: fmt.Sprintf("start %d of a daemon with %d fans: fan %d (%s) was analysed again (%d writes before regulation, sweep %v, measurement %v)", start, len(rigs), i, sc.Kinds[i], len(pre), sweep, meas)})
			}
			origPwm[i] = r.Pwm.Get()
			r.Close()
		}
	}
	return verdict{vs: vs, nontrivial: sc.Starts >= 2 && len(sc.Kinds) >= 2, labels: []string{fmt.Sprintf("fans:%d", len(sc.Kinds))}, outcome: rows}
}

func TestC15Multi(t *testing.T) { runProperty(t, "C15", genC15Multi, runC15Multi) }
