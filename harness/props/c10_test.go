package props

// C10 - a stalled never-stop fan is noticed and pushed within a bounded time.
//
// Liveness as bounded-time safety, in RPM polls: B(n) = 12*n + 5 with n = rpmRollingWindowSize
// (n*ln(A) <= 9.3n polls suffice for an exponential average to fall below 1 RPM from A <= 10^4).
//  (i)   first raise within B(n) polls of the first poll that returned 0 with the request unchanged
//  (ii)  while the fan keeps reporting 0, raises are at most B(n) polls apart, each by >= 1, never down
//  (iii) once the fan spins (request >= theta) raises stop (one more allowed for the poll in flight)
//        and regulation continues
//  (iv)  request at max with 0 RPM: within B(n) polls regulation of the fan ends and the fan is
//        restored (original mode != manual, or PWM 255)

import (
	"fmt"
	"testing"

	"github.com/markusressel/fan2go/verifharness/sim"
	"pgregory.net/rapid"
)

type c10Scenario struct {
	Loop      sim.LoopScenario `json:"loop"`
	SpinSteps int              `json:"spinSteps"` // cycles during which the fan still spins at A RPM
	Theta     int              `json:"theta"`     // afterwards it spins only at pwm >= theta (256: never)
}

func c10Bound(n int) int { return 12*n + 5 }

func genC10(t *rapid.T) c10Scenario {
	kind := rapid.SampledFrom([]string{"hwmon", "hwmon", "file"}).Draw(t, "kind")
	if rare(t, "cmdFan", 2*envInt("VERIF_CMD_SHARE", 1)) {
		kind = "cmd"
	}
	n := rapid.OneOf(rapid.IntRange(1, 50), rapid.SampledFrom([]int{1, 2, 10, 50})).Draw(t, "window")
	if kind == "cmd" {
		n = 1 + n%3
	}
	A := rapid.SampledFrom([]int{0, 1, 300, 3000, 10000}).Draw(t, "A")
	fan := sim.FanSpec{Kind: kind, NeverStop: true, PwmMap: identityMap(), OrigMode: rapid.SampledFrom([]int{0, 1, 2, 5}).Draw(t, "origMode"),
		OrigPwm: rapid.IntRange(0, 255).Draw(t, "origPwm"), RpmAvg0: float64(A)}
	mn, mx := 0, 255
	if kind == "hwmon" {
		mn = rapid.IntRange(0, 200).Draw(t, "min")
		mx = rapid.IntRange(mn+1, minInt(255, mn+60)).Draw(t, "max")
		fan.MinPwm, fan.MaxPwm = ip(mn), ip(mx)
		fan.NoEnable = rapid.IntRange(0, 5).Draw(t, "noEnable") == 0
	}
	if kind == "file" {
		fan.TildeRpm = rapid.IntRange(0, 2).Draw(t, "tildeRpm") == 0
	}
	thetaKind := rapid.IntRange(0, 2).Draw(t, "thetaKind")
	theta := 0
	switch thetaKind {
	case 0: // never stalls
		theta = rapid.IntRange(0, mn).Draw(t, "theta")
	case 1: // starts spinning again somewhere above the minimum
		theta = rapid.IntRange(mn+1, minInt(mx, mn+25)).Draw(t, "theta")
	default: // never spins
		theta = 256
		if kind == "hwmon" && mx-mn > 40 {
			mx = mn + 40
			fan.MaxPwm = ip(mx)
		}
	}
	if kind != "hwmon" && theta == 256 {
		theta = rapid.IntRange(1, 30).Draw(t, "thetaFile") // 255 raises of a file fan would only repeat (ii)
	}
	tick := rapid.SampledFrom([]int{100, 200, 500}).Draw(t, "tickMs")
	poll := tick * rapid.SampledFrom([]int{1, 1, 2, 5}).Draw(t, "pollPerTick")
	sc := sim.LoopScenario{Fan: fan, Loop: sim.LoopSpec{Kind: "direct"}, TickMs: tick, RpmPollMs: poll, RpmWindow: n,
		Law: sim.RpmLaw{Theta: 0, Rpm: A}, Stop: sim.StopSpec{AtMs: -1}}
	cv := rapid.SampledFrom([]int{0, 0, 0, 3, 128, 255}).Draw(t, "curve")
	// a fan whose PWM cannot be read back any more still has to be pushed when it reports 0 RPM
	pwmReadFails := kind == "cmd" && rapid.IntRange(0, 2).Draw(t, "pwmReadFails") == 0
	ppt := poll / tick
	spin := 3 * n * ppt
	raises := 1
	if theta > mn {
		raises = minInt(theta, mx) - mn + 2
	}
	stall := (raises + 1) * (c10Bound(n) + 2) * ppt
	if stall > 40000 {
		stall = 40000
	}
	if kind == "cmd" {
		// script based fan: small window, few raises, so that the case stays within a few hundred cycles
		if stall > 60 {
			stall = 60
		}
	}
	for i := 0; i < spin+stall; i++ {
		s := sim.Step{Curve: cv}
		if i == spin {
			s.Theta, s.Rpm = ip(theta), ip(maxInt(A, 500))
		}
		if i >= spin && pwmReadFails {
			s.PwmRead = sim.ReadEIO
		}
		sc.Steps = append(sc.Steps, s)
	}
	return c10Scenario{Loop: sc, SpinSteps: spin, Theta: theta}
}

func minInt(a, b int) int {
	if a < b {
		return a
	}
	return b
}
func maxInt(a, b int) int {
	if a > b {
		return a
	}
	return b
}

func runC10(t *testing.T, sc c10Scenario) verdict {
	res := sim.RunLoop(t, sc.Loop)
	var vs []sim.Violation
	add := func(k, m string) {
		if len(vs) < 3 {
			vs = append(vs, sim.Violation{Key: k, Msg: m})
		}
	}
	if !res.Started {
		return verdict{vs: []sim.Violation{{Key: "harness", Msg: "regulation never started: " + res.RunErr}}}
	}
	n := sc.Loop.RpmWindow
	B := c10Bound(n)
	// zeroSince: number of polls at the moment the device first reported 0 with the current request
	zeroSince := -1
	prevReq := -1
	raises := 0
	endedAt := -1
	stalledAtMaxSince := -1
	spunAtCycle := -1
	raisesAfterSpin := 0
	lastReq := -1
	lastZero := false
	lastRaiseReq := -1
	spinSince := -1 // polls at the moment the device started to answer a clearly non-zero RPM
	spinPolls := 0
	for i, o := range res.Obs {
		if o.Evals == 0 {
			if endedAt < 0 {
				endedAt = i
			}
			continue
		}
		if o.EndedHere {
			endedAt = i
			continue
		}
		req := o.Pwm
		lastReq = req
		// nominal number of RPM polls so far (virtual time / poll period): counting the device's reads
		// would let a change that stops polling the fan stop the clock of this oracle as well
		polls := i * sc.Loop.TickMs / sc.Loop.RpmPollMs
		raised := prevReq >= 0 && o.Raises > res.Obs[i-1].Raises
		if raised {
			// "keeps raising it step by step": the requests issued at the moments of the raises never go down
			if req < lastRaiseReq {
				add("raise-below-previous-raise", fmt.Sprintf("cycle %d: raise to request %d, previous raise went to %d", i, req, lastRaiseReq))
			}
			lastRaiseReq = req
			raises++
			if spunAtCycle >= 0 {
				raisesAfterSpin++
			}
		}
		// what the RPM device answers at this request: A before the stall, then 0 below theta
		zero := (i < sc.SpinSteps && sc.Loop.Law.Rpm == 0) || (i >= sc.SpinSteps && req < sc.Theta)
		lastZero = zero
		rpmNow := sc.Loop.Law.Rpm
		if i >= sc.SpinSteps {
			rpmNow = maxInt(sc.Loop.Law.Rpm, 500)
		}
		if zero || rpmNow < 300 {
			spinSince = -1
		} else if spinSince < 0 {
			spinSince = polls
		}
		spinPolls = 0
		if spinSince >= 0 {
			spinPolls = polls - spinSince
		}
		if !zero && i >= sc.SpinSteps && spunAtCycle < 0 {
			spunAtCycle = i
		}
		if zero {
			if req != prevReq || zeroSince < 0 {
				zeroSince = polls
			}
			if req >= o.FanMax {
				// (iv) at max with 0 RPM: regulation has to end within B polls, whatever the request does meanwhile
				if stalledAtMaxSince < 0 {
					stalledAtMaxSince = polls
				}
				if polls-stalledAtMaxSince > B {
					add("stall-at-max-not-reported", fmt.Sprintf("cycle %d: request %d >= max %d with 0 RPM since %d polls (bound %d), regulation still running", i, req, o.FanMax, polls-stalledAtMaxSince, B))
					break
				}
			} else {
				stalledAtMaxSince = -1
			}
			if req > o.FanMax {
				add("request-above-max-while-stalled", fmt.Sprintf("cycle %d: request %d, fan maximum %d", i, req, o.FanMax))
			}
			if polls-zeroSince > B {
				if req >= o.FanMax {
					add("stall-at-max-not-reported", fmt.Sprintf("cycle %d: request %d = max with 0 RPM for %d polls (bound %d), regulation still running", i, req, polls-zeroSince, B))
				} else {
					add("stall-not-noticed-in-time", fmt.Sprintf("cycle %d: fan at request %d reports 0 RPM since %d polls (window %d, bound %d, previous average %v), no raise", i, req, polls-zeroSince, n, B, sc.Loop.Fan.RpmAvg0))
				}
				break
			}
		} else {
			zeroSince = -1
			stalledAtMaxSince = -1
		}
		prevReq = req
	}
	if raisesAfterSpin > 1 {
		add("raised-although-spinning", fmt.Sprintf("fan spins from request %d on, but the minimum was raised %d more times", sc.Theta, raisesAfterSpin))
	}
	if endedAt >= 0 {
		// regulation ended: must be because the fan is stalled at max; fan handed back
		// only when fan2go had the chance to know: the fan reported >= 300 RPM in more than n polls
		if !lastZero && spinPolls > n {
			add("regulation-ended-although-spinning", fmt.Sprintf("regulation ended at cycle %d with request %d although the fan was reporting rotation (spins from %d)", endedAt, lastReq, sc.Theta))
		}
		if v := restoredViolation(sc.Loop.Fan, res); v != "" {
			add("not-restored-after-stall-at-max", v)
		}
	}
	labels := []string{"kind:" + sc.Loop.Fan.Kind}
	if sc.Loop.Fan.TildeRpm {
		labels = append(labels, "rpm-path-relative-to-home")
	}
	switch {
	case sc.Theta == 256:
		labels = append(labels, "never-spins")
	case raises > 0:
		labels = append(labels, "stall-then-spin")
	default:
		labels = append(labels, "never-stalls")
	}
	if endedAt >= 0 {
		labels = append(labels, "ended-at-max")
	}
	m0 := res.Obs[0].FanMin
	nt := (sc.Theta > m0 || sc.Loop.Law.Rpm == 0) && (sc.Loop.Fan.RpmAvg0 >= 300 || n >= 5)
	return verdict{vs: vs, nontrivial: nt, labels: labels, outcome: map[string]any{"raises": raises, "lastRequest": lastReq, "endedAtCycle": endedAt, "cycles": len(res.Obs), "finalPwm": res.FinalPwm, "finalMode": res.FinalMode}}
}

// restoredViolation is C03's final-state predicate: original mode (when that was not manual) or PWM 255.
func restoredViolation(f sim.FanSpec, res sim.LoopResult) string {
	hasMode := f.Kind == "hwmon" && !f.NoEnable
	if hasMode && f.OrigMode != 1 && res.FinalMode == f.OrigMode {
		return ""
	}
	if res.FinalPwm == 255 {
		return ""
	}
	return fmt.Sprintf("fan left in mode %d at PWM %d (original mode %d, control-mode support %v)", res.FinalMode, res.FinalPwm, f.OrigMode, hasMode)
}

func TestC10(t *testing.T) { runProperty(t, "C10", genC10, runC10) }
