package props

// C06 - curves evaluate to their documented function, always within 0..255.
// C07 (curve half) - hotter never means slower.
//
// Curves are created with the real curves.NewSpeedCurve from generated CurveConfigs and registered;
// sensors are harness implementations of sensors.Sensor whose smoothed/raw value the scenario sets.
// Oracle C06 (compositional): after the roots were evaluated, every node's CurrentValue is judged
//   - linear min/max: exact rational reference, v = floor(e) up to float noise;
//   - linear steps: exact rational interpolation, |v - e| <= 0.5 + 1e-4 (float32 rounding < 2e-5);
//   - PID: textbook PID in float64, |v - 255*clamp(ref)| <= 1;
//   - function: the named aggregate of the members' own current values, exactly;
//   - always 0 <= v <= 255, err == nil, Evaluate() == CurrentValue().

import (
	"fmt"
	"math"
	"math/big"
	"sort"
	"testing"
	"testing/synctest"
	"time"

	"github.com/markusressel/fan2go/internal/configuration"
	"github.com/markusressel/fan2go/internal/curves"
	"github.com/markusressel/fan2go/internal/sensors"
	"github.com/markusressel/fan2go/verifharness/sim"
	"pgregory.net/rapid"
)

type simSensor struct {
	id  string
	val float64
}

func (s *simSensor) GetId() string { return s.id }
func (s *simSensor) GetConfig() configuration.SensorConfig {
	return configuration.SensorConfig{ID: s.id}
}
func (s *simSensor) GetValue() (float64, error) { return s.val, nil }
func (s *simSensor) GetMovingAvg() float64      { return s.val }
func (s *simSensor) SetMovingAvg(v float64)     { s.val = v }

type stepPair struct {
	Temp  int     `json:"temp"`
	Speed float64 `json:"speed"`
}

type curveNode struct {
	Kind    string     `json:"kind"` // minmax | steps | pid | function
	Sensor  int        `json:"sensor,omitempty"`
	Min     int        `json:"min,omitempty"`
	Max     int        `json:"max,omitempty"`
	Steps   []stepPair `json:"steps,omitempty"`
	Set     float64    `json:"setPoint,omitempty"`
	P       float64    `json:"p,omitempty"`
	I       float64    `json:"i,omitempty"`
	D       float64    `json:"d,omitempty"`
	Fn      string     `json:"fn,omitempty"`
	Members []int      `json:"members,omitempty"` // indices of earlier nodes
}

type evalStep struct {
	Vals []float64 `json:"vals"` // one per sensor, milli-degrees
	DtMs int       `json:"dtMs"`
}

type c06Scenario struct {
	Sensors int         `json:"sensors"`
	Nodes   []curveNode `json:"nodes"`
	Evals   []evalStep  `json:"evals"`
}

var fnAll = []string{configuration.FunctionSum, configuration.FunctionDifference, configuration.FunctionDelta,
	configuration.FunctionMinimum, configuration.FunctionMaximum, configuration.FunctionAverage}
var fnMonotone = []string{configuration.FunctionSum, configuration.FunctionMinimum, configuration.FunctionMaximum, configuration.FunctionAverage}

func genSpeed(t *rapid.T) float64 {
	if rapid.IntRange(0, 4).Draw(t, "frac") == 0 {
		base := float64(rapid.IntRange(0, 254).Draw(t, "speedBase"))
		return base + rapid.SampledFrom([]float64{0.5, 0.49999999999999, 0.25, 0.75, 0.999, 0.001}).Draw(t, "speedFrac")
	}
	return float64(rapid.IntRange(0, 255).Draw(t, "speed"))
}

func genLeaf(t *rapid.T, nSensors int, allowPid, monotone bool) curveNode {
	k := rapid.IntRange(0, 2).Draw(t, "leafKind")
	if !allowPid && k == 2 {
		k = 1
	}
	n := curveNode{Sensor: rapid.IntRange(0, nSensors-1).Draw(t, "sensor")}
	switch k {
	case 0:
		n.Kind = "minmax"
		n.Min = rapid.IntRange(-50, 149).Draw(t, "min")
		n.Max = rapid.IntRange(n.Min+1, 150).Draw(t, "max")
	case 1:
		n.Kind = "steps"
		cnt := rapid.IntRange(1, 10).Draw(t, "nSteps")
		temps := rapid.SliceOfNDistinct(rapid.IntRange(-40, 200), cnt, cnt, rapid.ID[int]).Draw(t, "temps")
		sort.Ints(temps)
		speeds := make([]float64, cnt)
		for i := range speeds {
			speeds[i] = genSpeed(t)
		}
		if monotone {
			sort.Float64s(speeds)
		}
		for i := range temps {
			n.Steps = append(n.Steps, stepPair{temps[i], speeds[i]})
		}
	default:
		n.Kind = "pid"
		n.Set = float64(rapid.IntRange(20, 90).Draw(t, "setPoint"))
		if rapid.IntRange(0, 9).Draw(t, "extremeGains") == 0 {
			g := rapid.SampledFrom([]float64{0, 1e300, -1e300, 1e-300, math.MaxFloat64, -math.MaxFloat64})
			n.P, n.I, n.D = g.Draw(t, "p"), g.Draw(t, "i"), g.Draw(t, "d")
		} else {
			g := rapid.OneOf(rapid.Float64Range(-100, 100), rapid.SampledFrom([]float64{-0.005, -0.006, 0.3, 0.02, 1e-4, -1e-4, 0}))
			n.P, n.I, n.D = g.Draw(t, "p"), g.Draw(t, "i"), g.Draw(t, "d")
		}
	}
	return n
}

func genForest(t *rapid.T, nSensors int, monotone bool) []curveNode {
	var nodes []curveNode
	depth := []int{}
	// stateful[j]: node j is a PID curve or contains one. Such a node may be referenced only once,
	// so that every PID curve is evaluated exactly once per step - the only reading under which the
	// documented PID definition is well-defined (cf. the TODO in functional.go; a second evaluation
	// in the same instant has elapsed time 0).
	stateful := []bool{}
	used := map[int]bool{}
	nLeaves := rapid.IntRange(1, 6).Draw(t, "nLeaves")
	for i := 0; i < nLeaves; i++ {
		n := genLeaf(t, nSensors, !monotone, monotone)
		nodes = append(nodes, n)
		depth = append(depth, 0)
		stateful = append(stateful, n.Kind == "pid")
	}
	nFn := rapid.IntRange(0, 12-nLeaves).Draw(t, "nFn")
	fns := fnAll
	if monotone {
		fns = fnMonotone
	}
	for i := 0; i < nFn; i++ {
		k := rapid.IntRange(1, 8).Draw(t, "nMembers")
		var members []int
		d := 0
		st := false
		for m := 0; m < k; m++ {
			var cand []int
			for j := range nodes {
				if depth[j] <= 3 && !(stateful[j] && used[j]) {
					cand = append(cand, j)
				}
			}
			if len(cand) == 0 {
				break
			}
			j := rapid.SampledFrom(cand).Draw(t, "member")
			used[j] = true
			st = st || stateful[j]
			members = append(members, j)
			if depth[j]+1 > d {
				d = depth[j] + 1
			}
		}
		if len(members) == 0 {
			break
		}
		nodes = append(nodes, curveNode{Kind: "function", Fn: rapid.SampledFrom(fns).Draw(t, "fn"), Members: members})
		depth = append(depth, d)
		stateful = append(stateful, st)
	}
	return nodes
}

// breakpoints of all leaves (milli-degrees) reading sensor s
func breakpoints(nodes []curveNode) []float64 {
	var bp []float64
	for _, n := range nodes {
		switch n.Kind {
		case "minmax":
			bp = append(bp, float64(n.Min)*1000, float64(n.Max)*1000)
		case "steps":
			for _, s := range n.Steps {
				bp = append(bp, float64(s.Temp)*1000)
			}
		case "pid":
			bp = append(bp, n.Set*1000)
		}
	}
	return bp
}

func genC06(t *rapid.T) c06Scenario {
	sc := c06Scenario{Sensors: rapid.IntRange(1, 3).Draw(t, "nSensors")}
	sc.Nodes = genForest(t, sc.Sensors, false)
	bp := breakpoints(sc.Nodes)
	valGen := rapid.OneOf(
		rapid.Custom(func(t *rapid.T) float64 {
			b := rapid.SampledFrom(bp).Draw(t, "bp")
			return b + rapid.SampledFrom([]float64{0, 1e-9, -1e-9, 0.5, -0.5, 1, -1, 500, -500}).Draw(t, "off")
		}),
		rapid.Float64Range(-60000, 220000),
		rapid.SampledFrom([]float64{0, -1, 1e300, -1e300, math.MaxFloat64, -math.MaxFloat64, 5e-324, 1e18, -1e18}),
	)
	n := rapid.IntRange(1, 30).Draw(t, "nEvals")
	for i := 0; i < n; i++ {
		e := evalStep{DtMs: rapid.SampledFrom([]int{1, 10, 50, 200, 200, 1000, 10000, 10000, 60000, 601000, 900000, 7200000, 86400000}).Draw(t, "dtMs")}
		for s := 0; s < sc.Sensors; s++ {
			e.Vals = append(e.Vals, valGen.Draw(t, "val"))
		}
		sc.Evals = append(sc.Evals, e)
	}
	return sc
}

// ---- building the real curves -------------------------------------------------------------------

func nodeId(i int) string { return fmt.Sprintf("n%d", i) }

func buildForest(sc c06Scenario) (crv []curves.SpeedCurve, sens []*simSensor, roots []int) {
	for s := 0; s < sc.Sensors; s++ {
		ss := &simSensor{id: fmt.Sprintf("s%d", s)}
		sens = append(sens, ss)
		sensors.RegisterSensor(ss)
	}
	hasParent := map[int]bool{}
	for i, n := range sc.Nodes {
		cfg := configuration.CurveConfig{ID: nodeId(i)}
		switch n.Kind {
		case "minmax":
			cfg.Linear = &configuration.LinearCurveConfig{Sensor: sens[n.Sensor].id, Min: n.Min, Max: n.Max}
		case "steps":
			m := map[int]float64{}
			for _, s := range n.Steps {
				m[s.Temp] = s.Speed
			}
			cfg.Linear = &configuration.LinearCurveConfig{Sensor: sens[n.Sensor].id, Steps: m}
		case "pid":
			cfg.PID = &configuration.PidCurveConfig{Sensor: sens[n.Sensor].id, SetPoint: n.Set, P: n.P, I: n.I, D: n.D}
		default:
			var ids []string
			for _, m := range n.Members {
				ids = append(ids, nodeId(m))
				hasParent[m] = true
			}
			cfg.Function = &configuration.FunctionCurveConfig{Type: n.Fn, Curves: ids}
		}
		c, err := curves.NewSpeedCurve(cfg)
		if err != nil {
			panic(err)
		}
		curves.RegisterSpeedCurve(c)
		crv = append(crv, c)
	}
	for i := range sc.Nodes {
		if !hasParent[i] {
			roots = append(roots, i)
		}
	}
	return
}

// ---- reference evaluators -----------------------------------------------------------------------

func ratOf(f float64) *big.Rat { r := new(big.Rat); r.SetFloat64(f); return r }

// refMinMax returns the exact value e = (avg-min)/(max-min)*255 as float and the saturated result
// (-1 when interpolating).
func refMinMax(n curveNode, avg float64) (sat int, e float64) {
	mn, mx := float64(n.Min)*1000, float64(n.Max)*1000
	if avg >= mx {
		return 255, 255
	}
	if avg <= mn {
		return 0, 0
	}
	num := new(big.Rat).Sub(ratOf(avg), ratOf(mn))
	den := new(big.Rat).Sub(ratOf(mx), ratOf(mn))
	q := new(big.Rat).Quo(num, den)
	q.Mul(q, big.NewRat(255, 1))
	f, _ := q.Float64()
	return -1, f
}

// refSteps returns the exact piecewise linear interpolation at x = avg/1000 degrees.
func refSteps(n curveNode, avg float64) float64 {
	st := n.Steps
	x := new(big.Rat).Quo(ratOf(avg), big.NewRat(1000, 1))
	if x.Cmp(big.NewRat(int64(st[0].Temp), 1)) <= 0 {
		return st[0].Speed
	}
	last := st[len(st)-1]
	if x.Cmp(big.NewRat(int64(last.Temp), 1)) >= 0 {
		return last.Speed
	}
	for i := 0; i+1 < len(st); i++ {
		x0, x1 := big.NewRat(int64(st[i].Temp), 1), big.NewRat(int64(st[i+1].Temp), 1)
		if x.Cmp(x0) >= 0 && x.Cmp(x1) < 0 {
			r := new(big.Rat).Sub(x, x0)
			r.Quo(r, new(big.Rat).Sub(x1, x0))
			dy := new(big.Rat).Sub(ratOf(st[i+1].Speed), ratOf(st[i].Speed))
			r.Mul(r, dy)
			r.Add(r, ratOf(st[i].Speed))
			f, _ := r.Float64()
			return f
		}
	}
	return last.Speed
}

type refPid struct {
	started  bool
	prevErr  float64
	integral float64
}

func (p *refPid) step(n curveNode, measured float64, dt float64) float64 {
	e := n.Set - measured/1000.0
	out := 0.0
	if p.started {
		p.integral += e * dt
		out = n.P*e + n.I*p.integral + n.D*((e-p.prevErr)/dt)
	}
	p.started = true
	p.prevErr = e
	return out
}

func refAggregate(fn string, vals []int) int {
	switch fn {
	case configuration.FunctionSum:
		s := 0
		for _, v := range vals {
			s += v
		}
		if s > 255 {
			s = 255
		}
		return s
	case configuration.FunctionDifference:
		d := vals[0]
		for _, v := range vals[1:] {
			d -= v
		}
		if d < 0 {
			d = 0
		}
		return d
	case configuration.FunctionDelta:
		lo, hi := vals[0], vals[0]
		for _, v := range vals {
			if v < lo {
				lo = v
			}
			if v > hi {
				hi = v
			}
		}
		return hi - lo
	case configuration.FunctionMinimum:
		lo := vals[0]
		for _, v := range vals {
			if v < lo {
				lo = v
			}
		}
		return lo
	case configuration.FunctionMaximum:
		hi := vals[0]
		for _, v := range vals {
			if v > hi {
				hi = v
			}
		}
		return hi
	default: // average: integer mean
		s := 0
		for _, v := range vals {
			s += v
		}
		return s / len(vals)
	}
}

func runC06(t *testing.T, sc c06Scenario) (v verdict) {
	sim.BaseConfig() // documented defaults (controllerAdjustmentTickRate 200 ms, ...)
	var vs []sim.Violation
	add := func(k, m string) {
		if len(vs) < 4 {
			vs = append(vs, sim.Violation{Key: k, Msg: m})
		}
	}
	ntBoundary, ntRange, ntDeep, pidNan := false, false, false, false
	bp := breakpoints(sc.Nodes)
	synctest.Test(t, func(st *testing.T) {
		defer func() {
			if r := recover(); r != nil {
				add("panic", fmt.Sprintf("panic while evaluating: %v", r))
			}
		}()
		crv, sens, roots := buildForest(sc)
		refs := make([]refPid, len(sc.Nodes))
		for ei, ev := range sc.Evals {
			if ei > 0 {
				time.Sleep(time.Duration(ev.DtMs) * time.Millisecond)
			}
			for s, val := range ev.Vals {
				sens[s].val = val
				for _, b := range bp {
					if math.Abs(val-b) <= 1 {
						ntBoundary = true
					}
				}
				if math.Abs(val) >= 1e18 {
					ntRange = true
				}
			}
			for _, r := range roots {
				got, err := crv[r].Evaluate()
				if err != nil {
					add("evaluate-error", fmt.Sprintf("eval %d: curve %s returned error %v", ei, nodeId(r), err))
				}
				if got != crv[r].CurrentValue() {
					add("current-value-mismatch", fmt.Sprintf("eval %d: curve %s returned %d but CurrentValue() is %d", ei, nodeId(r), got, crv[r].CurrentValue()))
				}
			}
			for i, n := range sc.Nodes {
				got := crv[i].CurrentValue()
				if got < 0 || got > 255 {
					key := "value-outside-0-255"
					if n.Kind == "pid" {
						key = "pid-curve-value-outside-0-255"
					}
					add(key, fmt.Sprintf("eval %d: %s curve %s = %d (sensor values %v)", ei, n.Kind, nodeId(i), got, ev.Vals))
					continue
				}
				switch n.Kind {
				case "minmax":
					sat, e := refMinMax(n, ev.Vals[n.Sensor])
					if sat >= 0 {
						if got != sat {
							add("minmax-saturation", fmt.Sprintf("eval %d: curve %s [%d,%d] at %v m-deg = %d, want %d", ei, nodeId(i), n.Min, n.Max, ev.Vals[n.Sensor], got, sat))
						}
					} else if float64(got) > math.Ceil(e+1e-6) || float64(got) < math.Floor(e-1e-6) {
						// "matches the clamped linear interpolation": either integer neighbour of the exact
						// value (the statement does not fix the rounding; fan2go truncates here and rounds steps)
						add("minmax-interpolation", fmt.Sprintf("eval %d: curve %s [%d,%d] at %v m-deg = %d, exact %.9f", ei, nodeId(i), n.Min, n.Max, ev.Vals[n.Sensor], got, e))
					}
				case "steps":
					e := refSteps(n, ev.Vals[n.Sensor])
					if float64(got) > math.Ceil(e+1e-4) || float64(got) < math.Floor(e-1e-4) {
						add("steps-interpolation", fmt.Sprintf("eval %d: curve %s steps %v at %v m-deg = %d, exact %.9f", ei, nodeId(i), n.Steps, ev.Vals[n.Sensor], got, e))
					}
				case "pid":
					dt := float64(ev.DtMs) / 1000
					ref := refs[i].step(n, ev.Vals[n.Sensor], dt)
					if math.IsNaN(ref) {
						pidNan = true // Inf - Inf: the documented definition has no value here; only the range is demanded
						continue
					}
					c := math.Max(0, math.Min(1, ref))
					if math.Abs(float64(got)-255*c) > 1 {
						add("pid-curve-value", fmt.Sprintf("eval %d: PID curve %s (set %v p %v i %v d %v) at %v m-deg dt %vs = %d, reference %.6f", ei, nodeId(i), n.Set, n.P, n.I, n.D, ev.Vals[n.Sensor], dt, got, 255*c))
					}
				default:
					var vals []int
					for _, m := range n.Members {
						vals = append(vals, crv[m].CurrentValue())
					}
					want := refAggregate(n.Fn, vals)
					if got != want {
						add("function-"+n.Fn, fmt.Sprintf("eval %d: %s curve %s over member values %v = %d, want %d", ei, n.Fn, nodeId(i), vals, got, want))
					}
					if len(n.Members) >= 3 {
						ntDeep = true
					}
				}
			}
		}
	})
	for _, n := range sc.Nodes {
		for _, m := range n.Members {
			if sc.Nodes[m].Kind == "function" {
				ntDeep = true
			}
		}
	}
	labels := []string{}
	if ntBoundary {
		labels = append(labels, "near-breakpoint")
	}
	if ntRange {
		labels = append(labels, "huge-reading")
	}
	if ntDeep {
		labels = append(labels, "nested-or-wide-function")
	}
	if pidNan {
		labels = append(labels, "pid-reference-nan")
	}
	kinds := map[string]bool{}
	for _, n := range sc.Nodes {
		kinds[n.Kind] = true
	}
	for k := range kinds {
		labels = append(labels, "has:"+k)
	}
	sort.Strings(labels)
	return verdict{vs: vs, nontrivial: ntBoundary || ntRange || ntDeep, labels: labels}
}

func TestC06(t *testing.T) { runProperty(t, "C06", genC06, runC06) }

// ---- C07 A: monotonicity of curves --------------------------------------------------------------

type c07aScenario struct {
	Nodes  []curveNode  `json:"nodes"`
	GridMd int          `json:"gridMilliDeg"`
	Pairs  [][2]float64 `json:"pairs"`
	// Walk: a temperature history with (virtual) time passing between the evaluations; every two
	// evaluations of the history are compared, not only neighbours
	Walk []c07aStep `json:"walk,omitempty"`
}

type c07aStep struct {
	T    float64 `json:"t"`
	DtMs int     `json:"dtMs"` // time since the previous evaluation
}

func genC07A(t *rapid.T) c07aScenario {
	sc := c07aScenario{Nodes: genForest(t, 1, true), GridMd: rapid.SampledFrom([]int{1, 7, 7, 100, 100}).Draw(t, "grid")}
	bp := breakpoints(sc.Nodes)
	n := rapid.IntRange(5, 40).Draw(t, "nPairs")
	near := rapid.Custom(func(t *rapid.T) float64 {
		b := rapid.SampledFrom(bp).Draw(t, "bp")
		switch rapid.IntRange(0, 4).Draw(t, "nb") {
		case 0:
			return b
		case 1:
			return math.Nextafter(b, math.Inf(1))
		case 2:
			return math.Nextafter(b, math.Inf(-1))
		default:
			return b + rapid.Float64Range(-1500, 1500).Draw(t, "d")
		}
	})
	for i := 0; i < n; i++ {
		a, b := near.Draw(t, "t1"), near.Draw(t, "t2")
		if a > b {
			a, b = b, a
		}
		sc.Pairs = append(sc.Pairs, [2]float64{a, b})
	}
	nw := rapid.IntRange(8, 40).Draw(t, "nWalk")
	for i := 0; i < nw; i++ {
		sc.Walk = append(sc.Walk, c07aStep{T: near.Draw(t, "wt"), DtMs: rapid.SampledFrom([]int{0, 0, 1, 40, 99, 101, 200, 1000, 5000}).Draw(t, "dt")})
	}
	return sc
}

func runC07A(t *testing.T, sc c07aScenario) (v verdict) {
	// in a bubble: the walk lets (virtual) time pass between evaluations
	synctest.Test(t, func(*testing.T) { v = runC07AInBubble(t, sc) })
	return v
}

func runC07AInBubble(t *testing.T, sc c07aScenario) verdict {
	sim.BaseConfig() // documented defaults (controllerAdjustmentTickRate 200 ms, ...)
	var vs []sim.Violation
	c6 := c06Scenario{Sensors: 1, Nodes: sc.Nodes}
	crv, sens, roots := buildForest(c6)
	bp := breakpoints(sc.Nodes)
	lo, hi := bp[0], bp[0]
	for _, b := range bp {
		lo, hi = math.Min(lo, b), math.Max(hi, b)
	}
	lo, hi = lo-2000, hi+2000
	crossed := 0
	evals := 0
	for _, r := range roots {
		prev, prevT := -1, 0.0
		for x := lo; x <= hi; x += float64(sc.GridMd) {
			sens[0].val = x
			v, err := crv[r].Evaluate()
			evals++
			if err != nil {
				vs = append(vs, sim.Violation{Key: "evaluate-error", Msg: err.Error()})
				break
			}
			if v < prev {
				vs = append(vs, sim.Violation{Key: "hotter-but-slower", Msg: fmt.Sprintf("root %s: %v m-deg -> %d but %v m-deg -> %d", nodeId(r), prevT, prev, x, v)})
				break
			}
			prev, prevT = v, x
		}
		for _, p := range sc.Pairs {
			sens[0].val = p[0]
			v1, _ := crv[r].Evaluate()
			sens[0].val = p[1]
			v2, _ := crv[r].Evaluate()
			evals += 2
			if v1 > v2 {
				vs = append(vs, sim.Violation{Key: "hotter-but-slower", Msg: fmt.Sprintf("root %s: T1=%v -> %d, T2=%v -> %d", nodeId(r), p[0], v1, p[1], v2)})
				break
			}
		}
		// history: every pair of evaluations along the walk, whatever happened in between
		type obs struct {
			t float64
			v int
		}
		var hist []obs
	walk:
		for i, w := range sc.Walk {
			time.Sleep(time.Duration(w.DtMs) * time.Millisecond)
			sens[0].val = w.T
			val, err := crv[r].Evaluate()
			evals++
			if err != nil {
				vs = append(vs, sim.Violation{Key: "evaluate-error", Msg: err.Error()})
				break
			}
			for j, o := range hist {
				if (o.t <= w.T && o.v > val) || (o.t >= w.T && o.v < val) {
					vs = append(vs, sim.Violation{Key: "hotter-but-slower", Msg: fmt.Sprintf("root %s, history: evaluation %d at %v m-deg -> %d, evaluation %d at %v m-deg -> %d", nodeId(r), j, o.t, o.v, i, w.T, val)})
					break walk
				}
			}
			hist = append(hist, obs{w.T, val})
		}
	}
	uniq := map[float64]bool{}
	for _, b := range bp {
		uniq[b] = true
	}
	crossed = len(uniq)
	return verdict{vs: vs, nontrivial: crossed >= 2, labels: []string{"curve-sweep", fmt.Sprintf("grid:%d", sc.GridMd)}, outcome: map[string]any{"evaluations": evals, "breakpoints": crossed, "roots": len(roots)}}
}

func TestC07A(t *testing.T) { runProperty(t, "C07", genC07A, runC07A) }
