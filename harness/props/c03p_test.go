package props

// C03 (process tier) - real daemon binary, real files, real signals.
//
// A configuration with 1..3 fans (hwmon on a fake tree with / without pwmN_enable, file fans) and a
// pre-seeded database is given to the real fan2go binary (built against the pure-Go gosensors
// stand-in). The first SIGTERM/SIGINT arrives after a drawn delay (covers start-up wait, first-second
// delay, ticking), optional further signals follow within 0..400 ms.
// Oracle once the process has exited: every fan fan2go touched is in its original control mode
// (when that was not manual) or at PWM 255; no Go panic trace on stderr; exit status 0 or 1.
// Wall-clock only bounds the wait (25 s -> inconclusive).

import (
	"bytes"
	"fmt"
	"os"
	"os/exec"
	"path/filepath"
	"strconv"
	"strings"
	"syscall"
	"testing"
	"time"

	"github.com/markusressel/fan2go/internal/configuration"
	"github.com/markusressel/fan2go/internal/fans"
	"github.com/markusressel/fan2go/internal/persistence"
	"github.com/markusressel/fan2go/verifharness/sim"
	"pgregory.net/rapid"
)

type c03pFan struct {
	Kind     string `json:"kind"` // hwmon | hwmon-noenable | file
	OrigMode int    `json:"origMode"`
	OrigPwm  int    `json:"origPwm"`
}

type c03pSignal struct {
	Sig     string `json:"sig"` // TERM | INT
	DelayMs int    `json:"delayMs"`
}

type c03pScenario struct {
	Fans    []c03pFan    `json:"fans"`
	Signals []c03pSignal `json:"signals"`
	TempC   int          `json:"tempC"`
	// after the last listed signal: a burst of BurstN further signals (alternating INT/TERM),
	// BurstGapUs microseconds apart - many arrival times relative to the shutdown in one run
	BurstN     int `json:"burstN,omitempty"`
	BurstGapUs int `json:"burstGapUs,omitempty"`
}

func genC03P(t *rapid.T) c03pScenario {
	var sc c03pScenario
	n := rapid.IntRange(1, 3).Draw(t, "nFans")
	for i := 0; i < n; i++ {
		sc.Fans = append(sc.Fans, c03pFan{Kind: rapid.SampledFrom([]string{"hwmon", "hwmon", "hwmon-noenable", "file"}).Draw(t, "kind"),
			OrigMode: rapid.SampledFrom([]int{0, 1, 2, 2, 5}).Draw(t, "origMode"), OrigPwm: rapid.IntRange(0, 254).Draw(t, "origPwm")})
	}
	sc.TempC = rapid.IntRange(35, 70).Draw(t, "tempC")
	first := rapid.OneOf(rapid.IntRange(0, 5000), rapid.IntRange(3000, 4500), rapid.SampledFrom([]int{0, 50, 2000, 2030, 3030, 3100})).Draw(t, "firstMs")
	sc.Signals = append(sc.Signals, c03pSignal{Sig: rapid.SampledFrom([]string{"TERM", "INT"}).Draw(t, "sig"), DelayMs: first})
	extra := rapid.SampledFrom([]int{0, 1, 1, 2}).Draw(t, "extraSignals")
	for i := 0; i < extra; i++ {
		sc.Signals = append(sc.Signals, c03pSignal{Sig: rapid.SampledFrom([]string{"TERM", "INT"}).Draw(t, "sig"),
			DelayMs: rapid.OneOf(rapid.IntRange(0, 400), rapid.SampledFrom([]int{0, 1, 5, 10, 50})).Draw(t, "delayMs")})
	}
	if rapid.IntRange(0, 2).Draw(t, "burst") > 0 {
		sc.BurstN = rapid.SampledFrom([]int{20, 60, 150}).Draw(t, "burstN")
		sc.BurstGapUs = rapid.SampledFrom([]int{30, 100, 300, 1000}).Draw(t, "burstGapUs")
	}
	return sc
}

func readInt(p string) int {
	b, err := os.ReadFile(p)
	if err != nil {
		return -1
	}
	v, err := strconv.Atoi(strings.TrimSpace(string(b)))
	if err != nil {
		return -2
	}
	return v
}

type c03pOutcome struct {
	ExitCode  int      `json:"exitCode"`
	Signaled  string   `json:"signaled,omitempty"`
	WallMs    int64    `json:"wallMs"`
	Final     []string `json:"final"`
	Panic     bool     `json:"panic"`
	Regulated []bool   `json:"touched"`
	Stderr    string   `json:"stderrTail,omitempty"`
}

func runC03P(t *testing.T, sc c03pScenario) verdict {
	bin := os.Getenv("VERIF_FAN2GO_BIN")
	if bin == "" {
		return verdict{vs: []sim.Violation{{Key: "harness", Msg: "VERIF_FAN2GO_BIN not set"}}}
	}
	dir, err := os.MkdirTemp(sim.WorkDir(), "c03p-")
	if err != nil {
		return verdict{vs: []sim.Violation{{Key: "harness", Msg: err.Error()}}}
	}
	defer os.RemoveAll(dir)
	w := func(p, v string) { _ = os.WriteFile(p, []byte(v+"\n"), 0644) }
	tree := filepath.Join(dir, "hwmon")
	fchip, tchip := filepath.Join(tree, "hwmon0"), filepath.Join(tree, "hwmon1")
	os.MkdirAll(fchip, 0755)
	os.MkdirAll(tchip, 0755)
	w(filepath.Join(fchip, "name"), "nct6798")
	w(filepath.Join(fchip, "verif_bus"), "1 0 0x290")
	w(filepath.Join(tchip, "name"), "coretemp")
	w(filepath.Join(tchip, "verif_bus"), "1 0 0x0")
	w(filepath.Join(tchip, "temp1_input"), fmt.Sprint(sc.TempC*1000))
	dbPath := filepath.Join(dir, "db", "fan2go.db")
	pers := persistence.NewPersistence(dbPath)
	_ = pers.Init()
	var y strings.Builder
	fmt.Fprintf(&y, "dbPath: %s\ntempSensorPollingRate: 10ms\nrpmPollingRate: 100ms\ncontrollerAdjustmentTickRate: 50ms\nfans:\n", dbPath)
	type paths struct{ pwm, en string }
	var fp []paths
	for i, f := range sc.Fans {
		id := fmt.Sprintf("fan%d", i)
		ch := i + 1
		switch f.Kind {
		case "file":
			p := filepath.Join(dir, "file_"+id)
			w(p, fmt.Sprint(f.OrigPwm))
			w(p+"_rpm", "1100")
			fp = append(fp, paths{p, ""})
			fmt.Fprintf(&y, "  - id: %s\n    file:\n      path: %s\n      rpmPath: %s_rpm\n", id, p, p)
		default:
			w(filepath.Join(fchip, fmt.Sprintf("fan%d_input", ch)), "1100")
			w(filepath.Join(fchip, fmt.Sprintf("pwm%d", ch)), fmt.Sprint(f.OrigPwm))
			en := ""
			if f.Kind == "hwmon" {
				en = filepath.Join(fchip, fmt.Sprintf("pwm%d_enable", ch))
				w(en, fmt.Sprint(f.OrigMode))
			}
			fp = append(fp, paths{filepath.Join(fchip, fmt.Sprintf("pwm%d", ch)), en})
			fmt.Fprintf(&y, "  - id: %s\n    hwmon:\n      platform: nct6798\n      rpmChannel: %d\n", id, ch)
		}
		fmt.Fprintf(&y, "    neverStop: false\n    curve: c1\n    controlAlgorithm: direct\n    pwmMap:\n      0: 0\n      255: 255\n")
		// pre-seed the database through the real API so that start-up goes straight to regulation
		twin, _ := fans.NewFan(configuration.FanConfig{ID: id, HwMon: &configuration.HwMonFanConfig{}})
		d := map[int]float64{}
		for k := 0; k <= 255; k++ {
			d[k] = float64(k * 10)
		}
		_ = twin.AttachFanRpmCurveData(&d)
		if err := pers.SaveFanPwmData(twin); err != nil {
			return verdict{vs: []sim.Violation{{Key: "harness", Msg: "seeding db: " + err.Error()}}}
		}
	}
	fmt.Fprintf(&y, "sensors:\n  - id: s1\n    hwmon:\n      platform: coretemp\n      index: 1\ncurves:\n  - id: c1\n    linear:\n      sensor: s1\n      min: 30\n      max: 80\n")
	cfgPath := filepath.Join(dir, "fan2go.yaml")
	_ = os.WriteFile(cfgPath, []byte(y.String()), 0644)

	cmd := exec.Command(bin, "-c", cfgPath, "--no-style", "--no-color")
	cmd.Env = append(os.Environ(), "FAN2GO_VERIF_HWMON_ROOT="+tree, "HOME="+dir)
	var stderr, stdout bytes.Buffer
	cmd.Stderr, cmd.Stdout = &stderr, &stdout
	t0 := time.Now()
	if err := cmd.Start(); err != nil {
		return verdict{vs: []sim.Violation{{Key: "harness", Msg: "start: " + err.Error()}}}
	}
	exited := make(chan error, 1)
	go func() { exited <- cmd.Wait() }()
	alive := true
	for _, s := range sc.Signals {
		select {
		case <-exited:
			alive = false
		case <-time.After(time.Duration(s.DelayMs) * time.Millisecond):
		}
		if !alive {
			break
		}
		sig := syscall.SIGTERM
		if s.Sig == "INT" {
			sig = syscall.SIGINT
		}
		_ = cmd.Process.Signal(sig)
	}
	for i := 0; i < sc.BurstN && alive; i++ {
		t1 := time.Now()
		for time.Since(t1) < time.Duration(sc.BurstGapUs)*time.Microsecond {
		} // spin: sleeping is too coarse
		sig := syscall.SIGINT
		if i%2 == 1 {
			sig = syscall.SIGTERM
		}
		if err := cmd.Process.Signal(sig); err != nil {
			break // gone
		}
	}
	out := c03pOutcome{}
	inconclusive := false
	lateTerm := false
	if alive {
		select {
		case <-exited:
		case <-time.After(8 * time.Second):
			// none of the scheduled signals took effect (they all arrived before fan2go had installed
			// its handler and were dropped or coalesced): the daemon is regulating by now, end the run
			// with one more SIGTERM - that one it must obey
			lateTerm = true
			_ = cmd.Process.Signal(syscall.SIGTERM)
			select {
			case <-exited:
			case <-time.After(25 * time.Second):
				inconclusive = true
				_ = cmd.Process.Kill()
				<-exited
			}
		}
	}
	out.WallMs = time.Since(t0).Milliseconds()
	if ws, ok := cmd.ProcessState.Sys().(syscall.WaitStatus); ok {
		out.ExitCode = ws.ExitStatus()
		if ws.Signaled() {
			out.Signaled = ws.Signal().String()
		}
	}
	se := stderr.String() + stdout.String()
	out.Panic = strings.Contains(se, "panic:") || strings.Contains(se, "fatal error:") || strings.Contains(se, "goroutine ")
	if len(se) > 600 {
		out.Stderr = se[len(se)-600:]
	} else {
		out.Stderr = se
	}
	var vs []sim.Violation
	if inconclusive {
		return verdict{vs: []sim.Violation{{Key: "daemon-does-not-stop", Msg: fmt.Sprintf("signals %+v had no effect for 8 s; a further SIGTERM while regulating did not end the daemon within 25 s", sc.Signals)}}, outcome: out}
	}
	touchedAny, killedEarly := false, false
	for i, f := range sc.Fans {
		pwm, mode := readInt(fp[i].pwm), -1
		if fp[i].en != "" {
			mode = readInt(fp[i].en)
		}
		out.Final = append(out.Final, fmt.Sprintf("%s pwm=%d mode=%d", f.Kind, pwm, mode))
		touched := pwm != f.OrigPwm || (fp[i].en != "" && mode != f.OrigMode)
		out.Regulated = append(out.Regulated, touched)
		if !touched {
			continue // exactly as fan2go found it
		}
		touchedAny = true
		ok := (fp[i].en != "" && f.OrigMode != 1 && mode == f.OrigMode) || pwm == 255
		if !ok {
			key := "left-manual-at-reduced-speed"
			if out.Panic {
				key = "signal-during-shutdown-kills-daemon"
			}
			vs = append(vs, sim.Violation{Key: key, Msg: fmt.Sprintf("fan %d (%s, original mode %d pwm %d) left in mode %d at PWM %d after signals %+v (exit %d %s)", i, f.Kind, f.OrigMode, f.OrigPwm, mode, pwm, sc.Signals, out.ExitCode, out.Signaled)})
		}
	}
	if out.Panic {
		key := "daemon-panicked-on-shutdown"
		if strings.Contains(se, "send on closed channel") {
			key = "second-signal-panics"
		}
		vs = append(vs, sim.Violation{Key: key, Msg: fmt.Sprintf("signals %+v: stderr shows a Go panic: %s", sc.Signals, firstPanicLine(se))})
	} else if out.Signaled != "" && !touchedAny {
		// the signal arrived before fan2go installed its handler (and before it touched any fan):
		// the operating system's default action ended the process - nothing to hand back
		killedEarly = true
	} else if out.Signaled != "" || (out.ExitCode != 0 && out.ExitCode != 1) {
		vs = append(vs, sim.Violation{Key: "abnormal-exit", Msg: fmt.Sprintf("signals %+v: exit status %d %s", sc.Signals, out.ExitCode, out.Signaled)})
	}
	labels := []string{fmt.Sprintf("signals:%d", len(sc.Signals))}
	if killedEarly {
		labels = append(labels, "killed-before-handler-installed")
	}
	switch d := sc.Signals[0].DelayMs; {
	case d < 2020:
		labels = append(labels, "phase:startup-wait")
	case d < 3020:
		labels = append(labels, "phase:first-second-delay")
	default:
		labels = append(labels, "phase:ticking")
	}
	if sc.BurstN > 0 {
		labels = append(labels, "signal-burst")
	}
	if lateTerm {
		labels = append(labels, "scheduled-signals-had-no-effect")
	}
	nt := touchedAny && (len(sc.Signals) > 1 || sc.BurstN > 0 || hasOrigMode(sc, 1, 5, 0))
	return verdict{vs: vs, nontrivial: nt, labels: labels, outcome: out}
}

func hasOrigMode(sc c03pScenario, modes ...int) bool {
	for _, f := range sc.Fans {
		for _, m := range modes {
			if f.OrigMode == m || f.Kind != "hwmon" {
				return true
			}
		}
	}
	return false
}

func firstPanicLine(s string) string {
	for _, l := range strings.Split(s, "\n") {
		if strings.Contains(l, "panic:") || strings.Contains(l, "fatal error:") {
			return l
		}
	}
	return ""
}

func TestC03Proc(t *testing.T) { runProperty(t, "C03", genC03P, runC03P) }
