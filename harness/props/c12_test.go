package props

// C12 - the fan receives the nearest value it supports.
//
// Oracle: brute-force reference. S(map) = keys (ascending) whose output differs from the output
// of the previous key; near(r) = elements of S minimising |k-r|; allowed(r) = { map[k] : k in near(r) }.

import (
	"errors"
	"fmt"
	"sort"
	"testing"
	"time"

	"github.com/markusressel/fan2go/internal/control_loop"
	"github.com/markusressel/fan2go/internal/controller"
	"github.com/markusressel/fan2go/internal/util"
	"github.com/markusressel/fan2go/verifharness/sim"
	"pgregory.net/rapid"
)

func refSupported(m map[int]int) []int {
	keys := make([]int, 0, len(m))
	for k := range m {
		keys = append(keys, k)
	}
	sort.Ints(keys)
	var s []int
	for i, k := range keys {
		if i == 0 || m[k] != m[keys[i-1]] {
			s = append(s, k)
		}
	}
	return s
}

// refNear returns the supported inputs at minimal distance from r (one or two).
func refNear(s []int, r int) []int {
	best := -1
	var out []int
	for _, k := range s {
		d := k - r
		if d < 0 {
			d = -d
		}
		if best < 0 || d < best {
			best = d
			out = []int{k}
		} else if d == best {
			out = append(out, k)
		}
	}
	return out
}

func containsInt(s []int, v int) bool {
	for _, x := range s {
		if x == v {
			return true
		}
	}
	return false
}

func equalInts(a, b []int) bool {
	if len(a) != len(b) {
		return false
	}
	for i := range a {
		if a[i] != b[i] {
			return false
		}
	}
	return true
}

// c12CheckMap judges one map against a list of requests through the real pure functions.
func c12CheckMap(m map[int]int, reqs []int) (vs []sim.Violation, choices, ties int) {
	defer func() {
		if r := recover(); r != nil {
			vs = append(vs, sim.Violation{Key: "panic", Msg: fmt.Sprintf("panic: %v (map %v)", r, m)})
		}
	}()
	ref := refSupported(m)
	got := util.ExtractKeysWithDistinctValues(m)
	sort.Ints(got) // the controller sorts them too
	if !equalInts(ref, got) {
		vs = append(vs, sim.Violation{Key: "supported-inputs", Msg: fmt.Sprintf("supported inputs of %v: got %v want %v", m, got, ref)})
		return
	}
	for _, r := range reqs {
		k := util.FindClosest(r, got)
		near := refNear(ref, r)
		if len(ref) >= 2 && !containsInt(ref, r) {
			choices++
		}
		if len(near) == 2 {
			ties++
		}
		if !containsInt(near, k) {
			vs = append(vs, sim.Violation{Key: "not-nearest", Msg: fmt.Sprintf("request %d over supported %v: chose %d (output %d), nearest %v", r, ref, k, m[k], near)})
			return
		}
	}
	return
}

type c12Pure struct {
	Map  map[int]int `json:"map"`
	Reqs []int       `json:"reqs"`
}

func genPwmMap(t *rapid.T, label string) map[int]int {
	m := map[int]int{}
	shape := rapid.IntRange(0, 5).Draw(t, label+"_shape")
	var keys []int
	switch shape {
	case 0: // full size
		for i := 0; i <= 255; i++ {
			keys = append(keys, i)
		}
	case 1: // single entry
		keys = []int{rapid.IntRange(0, 255).Draw(t, label+"_k")}
	default:
		keys = rapid.SliceOfNDistinct(rapid.IntRange(0, 255), 1, 40, rapid.ID[int]).Draw(t, label+"_keys")
	}
	sort.Ints(keys)
	style := rapid.IntRange(0, 4).Draw(t, label+"_style")
	step := rapid.IntRange(2, 64).Draw(t, label+"_step")
	cst := rapid.IntRange(0, 255).Draw(t, label+"_const")
	for _, k := range keys {
		switch style {
		case 0: // identity
			m[k] = k
		case 1: // quantiser
			m[k] = (k / step) * step
		case 2: // constant
			m[k] = cst
		case 3: // small alphabet: many equal neighbours, non-monotone
			m[k] = rapid.SampledFrom([]int{0, 100, 255}).Draw(t, label+"_v") // per key
		default: // arbitrary
			m[k] = rapid.IntRange(0, 255).Draw(t, label+"_v")
		}
	}
	return m
}

func TestC12Pure(t *testing.T) {
	runProperty(t, "C12", func(t *rapid.T) c12Pure {
		m := genPwmMap(t, "m")
		sup := refSupported(m)
		// requests: everywhere, plus supported inputs, midpoints and their neighbours
		var reqs []int
		for i := 0; i < len(sup) && i < 12; i++ {
			reqs = append(reqs, sup[i], sup[i]-1, sup[i]+1)
			if i+1 < len(sup) {
				mid := (sup[i] + sup[i+1]) / 2
				reqs = append(reqs, mid, mid+1)
			}
		}
		reqs = append(reqs, rapid.SliceOfN(rapid.IntRange(-50, 305), 1, 30).Draw(t, "reqs")...)
		return c12Pure{Map: m, Reqs: reqs}
	}, func(t *testing.T, sc c12Pure) verdict {
		vs, choices, ties := c12CheckMap(sc.Map, sc.Reqs)
		labels := []string{"pure"}
		if ties > 0 {
			labels = append(labels, "equidistant")
		}
		if len(refSupported(sc.Map)) == 1 {
			labels = append(labels, "single-supported")
		}
		return verdict{vs: vs, nontrivial: choices > 0, labels: labels}
	})
}

// TestC12Exhaustive enumerates, for a universe of 12 keys, every non-empty key subset and every
// run pattern of outputs ({same as previous, new}; thorough: all assignments over a 3-letter
// alphabet), and every request in -50..305.
func TestC12Exhaustive(t *testing.T) {
	st := sim.NewStats("C12")
	defer st.Flush()
	full := envInt("VERIF_C12_FULL", 0) == 1
	shard, shards := envInt("VERIF_SHARD", 0), envInt("VERIF_SHARDS", 1)
	seed := envInt("VERIF_SEED", 1)
	universes := [][]int{
		{0, 1, 2, 3, 50, 51, 100, 128, 129, 200, 254, 255},
	}
	// second universe: pseudo-random per seed (deterministic LCG, not an RNG consulted at run time)
	{
		x := uint64(seed)*6364136223846793005 + 1442695040888963407
		seen := map[int]bool{}
		var u []int
		for len(u) < 12 {
			x = x*6364136223846793005 + 1442695040888963407
			k := int((x >> 33) % 256)
			if !seen[k] {
				seen[k] = true
				u = append(u, k)
			}
		}
		sort.Ints(u)
		universes = append(universes, u)
	}
	var reqs []int
	for r := -50; r <= 305; r++ {
		reqs = append(reqs, r)
	}
	alphabet := []int{0, 100, 255}
	n := 0
	for ui, u := range universes {
		for mask := 1; mask < 1<<12; mask++ {
			if mask%shards != shard {
				continue
			}
			var keys []int
			for b := 0; b < 12; b++ {
				if mask&(1<<b) != 0 {
					keys = append(keys, u[b])
				}
			}
			nk := len(keys)
			var npat int
			if full {
				npat = 1
				for i := 0; i < nk; i++ {
					npat *= 3
				}
			} else {
				npat = 1 << (nk - 1)
			}
			for p := 0; p < npat; p++ {
				m := map[int]int{}
				if full {
					q := p
					for _, k := range keys {
						m[k] = alphabet[q%3]
						q /= 3
					}
				} else {
					cur := 0
					m[keys[0]] = alphabet[0]
					for i := 1; i < nk; i++ {
						if p&(1<<(i-1)) != 0 {
							cur = (cur + 1) % 3
						}
						m[keys[i]] = alphabet[cur]
					}
				}
				vs, choices, _ := c12CheckMap(m, reqs)
				n++
				st.CaseH(fmt.Sprintf("u%d-m%d-p%d", ui, mask, p), nil, choices > 0, "exhaustive")
				if len(vs) > 0 {
					sc := c12Pure{Map: m, Reqs: reqs}
					if fail := st.Judge(vs); len(fail) > 0 {
						st.SaveReplay("TestC12Pure", sc, fail)
						t.Fatalf("C12 exhaustive: %v", fail)
					}
				}
			}
		}
	}
	st.Add("exhaustive_maps", int64(n))
	st.Add("requests_per_map", int64(len(reqs)))
	st.Sample(map[string]any{"universe": universes[1], "note": "every non-empty subset x every run pattern x requests -50..305"})
	st.Exhaustive = true
}

// ---- tier 3: composition through the real controller ------------------------------------------

type c12Loop struct {
	Map    map[int]int `json:"map"`
	Kind   string      `json:"kind"`
	Curves []int       `json:"curves"`
}

func c12LoopScenario(sc c12Loop, m map[int]int) sim.LoopScenario {
	steps := make([]sim.Step, len(sc.Curves))
	for i, c := range sc.Curves {
		steps[i] = sim.Step{Curve: c}
	}
	return sim.LoopScenario{
		Fan:    sim.FanSpec{Kind: sc.Kind, PwmMap: m, OrigMode: 2, OrigPwm: 77, MaxPwm: ip(255)},
		Loop:   sim.LoopSpec{Kind: "direct"},
		TickMs: 100, RpmPollMs: 1000, RpmWindow: 10, Law: sim.RpmLaw{Theta: 0, Rpm: 1000},
		Steps: steps, Stop: sim.StopSpec{AtMs: -1},
	}
}

func identityMap() map[int]int {
	m := map[int]int{}
	for i := 0; i <= 255; i++ {
		m[i] = i
	}
	return m
}

func TestC12Loop(t *testing.T) {
	runProperty(t, "C12", func(t *rapid.T) c12Loop {
		m := genPwmMap(t, "m")
		sup := refSupported(m)
		curves := rapid.SliceOfN(rapid.IntRange(0, 255), 3, 25).Draw(t, "curves")
		// aim some requests at supported inputs and midpoints
		for i := 0; i < len(sup) && i < 6; i++ {
			curves = append(curves, sup[i])
			if i+1 < len(sup) {
				curves = append(curves, (sup[i]+sup[i+1])/2)
			}
		}
		return c12Loop{Map: m, Kind: rapid.SampledFrom([]string{"hwmon", "hwmon", "file"}).Draw(t, "kind"), Curves: curves}
	}, func(t *testing.T, sc c12Loop) verdict {
		twin := sim.RunLoop(t, c12LoopScenario(sc, identityMap()))
		res := sim.RunLoop(t, c12LoopScenario(sc, sc.Map))
		var vs []sim.Violation
		sup := refSupported(sc.Map)
		choices := 0
		if len(twin.Obs) != len(sc.Curves) || len(res.Obs) != len(sc.Curves) {
			vs = append(vs, sim.Violation{Key: "harness", Msg: fmt.Sprintf("expected %d cycles, twin %d, run %d (ended=%v err=%q)", len(sc.Curves), len(twin.Obs), len(res.Obs), res.Ended, res.RunErr)})
			return verdict{vs: vs}
		}
		type row struct{ Curve, Request, Written int }
		var rows []row
		for i := range sc.Curves {
			r := twin.Obs[i].Pwm // identity map: device value == request
			w := res.Obs[i].Pwm
			rows = append(rows, row{sc.Curves[i], r, w})
			near := refNear(sup, r)
			ok := false
			for _, k := range near {
				if sc.Map[k] == w {
					ok = true
				}
			}
			if len(sup) >= 2 && !containsInt(sup, r) {
				choices++
			}
			if !ok {
				vs = append(vs, sim.Violation{Key: "written-not-nearest", Msg: fmt.Sprintf("cycle %d: request %d, supported %v, nearest %v, written %d", i, r, sup, near, w)})
				break
			}
			for _, wr := range res.Obs[i].Writes {
				if wr.V != w && i > 0 {
					vs = append(vs, sim.Violation{Key: "extra-write", Msg: fmt.Sprintf("cycle %d: wrote %d although the cycle's value is %d", i, wr.V, w)})
				}
			}
		}
		return verdict{vs: vs, nontrivial: choices > 0, labels: []string{"loop", "kind:" + sc.Kind}, outcome: rows}
	})
}

// ---- tier 4: the controller's own setPwm over the whole request range ---------------------------
//
// Regulation only ever requests values inside the fan's limits; the statement ranges over requests
// -50..305 for every map. A check-time overlay file exports setPwm (and the installation of a PWM
// map) of the real controller; fans with and without neverStop / a minimum, with and without PWM
// read-back.

type c12Set struct {
	Map        map[int]int `json:"map"`
	Kind       string      `json:"kind"` // hwmon | file | cmd
	NeverStop  bool        `json:"neverStop,omitempty"`
	MinPwm     *int        `json:"minPwm,omitempty"`
	MaxPwm     *int        `json:"maxPwm,omitempty"`
	Unreadable bool        `json:"unreadable,omitempty"` // the PWM cannot be read back
	Reqs       []int       `json:"reqs"`
}

func TestC12SetPwm(t *testing.T) {
	runProperty(t, "C12", func(t *rapid.T) c12Set {
		sc := c12Set{Map: genPwmMap(t, "m"), Kind: rapid.SampledFrom([]string{"hwmon", "hwmon", "hwmon", "hwmon", "file", "file", "file", "cmd"}).Draw(t, "kind")}
		if sc.Kind == "cmd" {
			// a script based fan (two processes per request: few requests), half of them with a getPwm command that fails
			sc.Unreadable = rapid.Bool().Draw(t, "unreadable")
			sc.Reqs = rapid.SliceOfN(rapid.OneOf(rapid.IntRange(-50, 305), rapid.SampledFrom([]int{0, 0, -50, 255, 305, 1})), 4, 10).Draw(t, "reqs")
			return sc
		}
		if sc.Kind == "hwmon" {
			sc.NeverStop = rapid.Bool().Draw(t, "neverStop")
			if rapid.Bool().Draw(t, "limits") {
				sc.MinPwm, sc.MaxPwm = ip(rapid.IntRange(0, 120).Draw(t, "min")), ip(rapid.IntRange(121, 255).Draw(t, "max"))
			}
			sc.Unreadable = rapid.IntRange(0, 4).Draw(t, "unreadable") == 0
		}
		sup := refSupported(sc.Map)
		sc.Reqs = rapid.SliceOfN(rapid.IntRange(-50, 305), 10, 40).Draw(t, "reqs")
		sc.Reqs = append(sc.Reqs, -50, -1, 0, 255, 256, 305)
		for i := 0; i < len(sup) && i < 8; i++ {
			sc.Reqs = append(sc.Reqs, sup[i], sup[i]-1, sup[i]+1)
			if i+1 < len(sup) {
				sc.Reqs = append(sc.Reqs, (sup[i]+sup[i+1])/2, (sup[i]+sup[i+1])/2+1)
			}
		}
		return sc
	}, func(t *testing.T, sc c12Set) verdict {
		sim.BaseConfig()
		spec := sim.FanSpec{Kind: sc.Kind, NeverStop: sc.NeverStop, MinPwm: sc.MinPwm, MaxPwm: sc.MaxPwm, OrigMode: 1, OrigPwm: 77}
		r := sim.BuildRig(spec, 0, sim.RpmLaw{Theta: 0, Rpm: 1000}, 0)
		defer r.Close()
		if sc.Unreadable {
			r.Pwm.SetReadMode(sim.ReadEIO)
		}
		ctl, ok := controller.NewFanController(sim.NewMemPersistence(), r.Fan, control_loop.NewDirectControlLoop(nil), 200*time.Millisecond).(*controller.DefaultFanController)
		if !ok {
			return verdict{labels: []string{"setpwm-hook-unavailable"}}
		}
		if err := ctl.VerifSetPwmMap(sc.Map); errors.Is(err, controller.ErrVerifHookUnavailable) {
			return verdict{labels: []string{"setpwm-hook-unavailable"}}
		}
		var vs []sim.Violation
		sup := refSupported(sc.Map)
		choices := 0
		type row struct{ Request, Written int }
		var rows []row
		for _, req := range sc.Reqs {
			err := ctl.VerifSetPwm(req)
			w := r.Pwm.Get()
			rows = append(rows, row{req, w})
			if err != nil {
				vs = append(vs, sim.Violation{Key: "setpwm-error", Msg: fmt.Sprintf("setPwm(%d) on a working device: %v", req, err)})
				break
			}
			near := refNear(sup, req)
			good := false
			for _, k := range near {
				if sc.Map[k] == w {
					good = true
				}
			}
			if len(sup) >= 2 && !containsInt(sup, req) {
				choices++
			}
			if !good {
				vs = append(vs, sim.Violation{Key: "written-not-nearest", Msg: fmt.Sprintf("setPwm(%d): supported inputs %v, nearest %v, device holds %d (fan %s neverStop %v min %v max %v, readable %v)", req, sup, near, w, sc.Kind, sc.NeverStop, optInt(sc.MinPwm), optInt(sc.MaxPwm), !sc.Unreadable)})
				break
			}
		}
		labels := []string{"setpwm", "kind:" + sc.Kind}
		if sc.Unreadable {
			labels = append(labels, "setpwm-"+sc.Kind+"-pwm-unreadable")
		}
		if sc.NeverStop && sc.MinPwm != nil && *sc.MinPwm > 0 {
			labels = append(labels, "never-stop-minimum")
		}
		return verdict{vs: vs, nontrivial: choices > 0, labels: labels, outcome: tailRows(rows)}
	})
}

func optInt(p *int) any {
	if p == nil {
		return nil
	}
	return *p
}

func tailRows[T any](r []T) []T {
	if len(r) > 12 {
		return r[len(r)-12:]
	}
	return r
}
