package props

// C02 - a never-stop fan is never driven below its minimum, and the minimum never drops.
//
// Identity PWM map, so the device value after a cycle is the request r_t. With m0 the fan's
// minimum when regulation starts and k_t the number of raises fan2go reports up to cycle t:
//   r_t >= m0 + k_t                      (floor, permanent raise)
//   k_t > k_{t-1}  =>  r_t > r_{t-1}      (strictly above the request at which the fan stalled)
//   k never decreases; fan.GetMinPwm() never drops below m0.

import (
	"fmt"
	"testing"

	"github.com/markusressel/fan2go/verifharness/sim"
	"pgregory.net/rapid"
)

type c02Scenario struct {
	Loop sim.LoopScenario `json:"loop"`
}

func genStallSteps(t *rapid.T, n int, lowBias bool) []sim.Step {
	var steps []sim.Step
	cur := 0
	if !lowBias {
		cur = rapid.IntRange(0, 255).Draw(t, "curve0")
	}
	for len(steps) < n {
		// long constant stretches (so that "request unchanged" episodes occur) and jumps
		l := rapid.IntRange(1, 40).Draw(t, "stretch")
		for j := 0; j < l && len(steps) < n; j++ {
			steps = append(steps, sim.Step{Curve: cur})
		}
		switch rapid.IntRange(0, 3).Draw(t, "jump") {
		case 0:
			cur = 0
		case 1:
			cur = rapid.IntRange(0, 40).Draw(t, "curveLow")
		default:
			cur = rapid.IntRange(0, 255).Draw(t, "curve")
		}
	}
	return steps
}

func genC02(t *rapid.T) c02Scenario {
	yes := true
	fan, _ := genFan(t, fanOpts{neverStop: &yes, identity: true, minLtMax: true, alwaysRpm: true})
	fan.RpmAvg0 = rapid.SampledFrom([]float64{0, 0, 1, 600, 3000}).Draw(t, "avg0")
	tick := rapid.SampledFrom([]int{100, 200, 1000}).Draw(t, "tickMs")
	sc := sim.LoopScenario{Fan: fan, Loop: genLoop(t, false), TickMs: tick,
		RpmPollMs: rapid.SampledFrom([]int{tick / 2, tick, tick * 3}).Draw(t, "pollMs"),
		RpmWindow: rapid.SampledFrom([]int{1, 1, 2, 5, 20}).Draw(t, "window"), Stop: sim.StopSpec{AtMs: -1}}
	// spins only at pwm >= theta: 0 = always, otherwise below/between/above the limits
	sc.Law = sim.RpmLaw{Theta: rapid.SampledFrom([]int{0, 5, 30, 60, 120, 200, 256, 256}).Draw(t, "theta"), Rpm: rapid.SampledFrom([]int{800, 3000}).Draw(t, "rpm")}
	nSteps := rapid.IntRange(50, 400).Draw(t, "nSteps")
	if fan.Kind == "cmd" {
		nSteps = 40 + nSteps/20
	}
	sc.Steps = genStallSteps(t, nSteps, true)
	// episodes in which the fan's threshold changes (dust, bearing wear): a second stall episode
	if rapid.Bool().Draw(t, "thetaChange") {
		i := rapid.IntRange(1, len(sc.Steps)-1).Draw(t, "thetaAt")
		sc.Steps[i].Theta = ip(rapid.SampledFrom([]int{0, 40, 90, 256}).Draw(t, "theta2"))
	}
	// a third party (firmware after a resume, another tool) takes the control mode or the PWM away between
	// two cycles: whatever fan2go does about it, the minimum it has learnt stays
	if rapid.IntRange(0, 2).Draw(t, "interference") == 0 {
		for n := rapid.IntRange(1, 4).Draw(t, "nInterference"); n > 0; n-- {
			i := rapid.IntRange(1, len(sc.Steps)-1).Draw(t, "intAt")
			if rapid.IntRange(0, 2).Draw(t, "intKind") == 0 {
				sc.Steps[i].IntPwm = ip(rapid.SampledFrom([]int{0, 1, 30, 128, 255}).Draw(t, "intPwm"))
			} else {
				sc.Steps[i].IntMode = ip(rapid.SampledFrom([]int{0, 2, 2, 3, 5}).Draw(t, "intMode"))
			}
		}
	}
	return c02Scenario{Loop: sc}
}

func runC02(t *testing.T, sc c02Scenario) verdict {
	res := sim.RunLoop(t, sc.Loop)
	var vs []sim.Violation
	add := func(k, m string) {
		if len(vs) < 4 {
			vs = append(vs, sim.Violation{Key: k, Msg: m})
		}
	}
	if !res.Started {
		add("harness", "regulation never started: "+res.RunErr)
		return verdict{vs: vs}
	}
	m0 := res.Obs[0].FanMin
	// the minimum as the statement defines it - "the configured minPwm, else the measured one" - taken
	// from the scenario, not from what the fan reports (a fan that reports less than was configured
	// would otherwise lower its own floor)
	mSpec := specMinPwm(sc.Loop.Fan)
	prevR, prevK := -1, 0
	raises, afterRaise := 0, 0
	var trace []int
	for i, o := range res.Obs {
		if o.Evals == 0 || o.EndedHere {
			break // regulation ended (stall at max): no request in this cycle
		}
		r, k := o.Pwm, o.Raises
		trace = append(trace, r)
		if k < prevK {
			add("raise-counter-decreased", fmt.Sprintf("cycle %d: IncreasedMinPwmCount went from %d to %d", i, prevK, k))
		}
		// raised minimum = initial minimum + number of raises. It can never exceed the maximum in a
		// correct controller (a raise only happens below max), so it is not capped here: a request
		// below a minimum that was pushed past the maximum is a violation of its own.
		floor := m0 + k
		if r < floor {
			add("request-below-floor", fmt.Sprintf("cycle %d: request %d below initial minimum %d + %d raise(s) (requests so far %v)", i, r, m0, k, tail(trace, 8)))
		}
		if r < mSpec+k {
			add("request-below-configured-minimum", fmt.Sprintf("cycle %d: request %d below the fan's configured/measured minimum %d + %d raise(s) (requests so far %v)", i, r, mSpec, k, tail(trace, 8)))
		}
		if k > prevK && prevR >= 0 && r <= prevR {
			add("raise-not-above-stall-request", fmt.Sprintf("cycle %d: minimum raised but request %d is not above the stalled request %d", i, r, prevR))
		}
		if o.MinAfter < m0 {
			add("fan-minimum-dropped", fmt.Sprintf("cycle %d: fan reports minimum %d, was %d at start", i, o.MinAfter, m0))
		}
		if k > prevK {
			raises++
			afterRaise = 0
		} else if raises > 0 {
			afterRaise++
		}
		prevR, prevK = r, k
	}
	labels := []string{"kind:" + sc.Loop.Fan.Kind, "loop:" + sc.Loop.Loop.Kind}
	for _, st := range sc.Loop.Steps {
		if st.IntMode != nil || st.IntPwm != nil {
			labels = append(labels, "third-party-interference")
			break
		}
	}
	if raises > 0 {
		labels = append(labels, "stall-episode")
	}
	if raises > 1 {
		labels = append(labels, "multiple-raises")
	}
	if res.Ended {
		labels = append(labels, "stalled-at-max")
	}
	return verdict{vs: vs, nontrivial: raises > 0 && afterRaise >= 3, labels: labels,
		outcome: map[string]any{"m0": m0, "raises": raises, "cycles": len(trace), "lastRequests": tail(trace, 12), "ended": res.Ended}}
}

// specMinPwm is the minimum of a never-stop fan by the documented rule: the configured minPwm, else
// the lowest PWM of the stored RPM curve at which the fan turns (whole RPM > 0); 0 for fans without
// either (file / cmd fans, hwmon fans on the default linear curve).
func specMinPwm(f sim.FanSpec) int {
	if !f.NeverStop || f.Kind != "hwmon" {
		return 0
	}
	if f.MinPwm != nil {
		return *f.MinPwm
	}
	if f.Measured != nil {
		for pwm := 0; pwm <= 255; pwm++ {
			if rpm, ok := f.Measured[pwm]; ok && int(rpm) > 0 {
				return pwm
			}
		}
	}
	return 0
}

func tail(a []int, n int) []int {
	if len(a) > n {
		return a[len(a)-n:]
	}
	return a
}

func TestC02(t *testing.T) { runProperty(t, "C02", genC02, runC02) }
