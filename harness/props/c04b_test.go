package props

// C04 through the daemon's own construction of controllers: internal.initializeFanControllers picks the
// control algorithm from the configuration (none = default PID, direct, direct with
// maxPwmChangePerCycle, explicit pid) and hands it the configured tick rate; one to three fans are
// built by ONE call and run side by side in one virtual-time bubble. Reference: the same fans run
// with directly constructed plain direct loops (steady value S).

import (
	"context"
	"errors"
	"fmt"
	"testing"
	"testing/synctest"
	"time"

	"github.com/markusressel/fan2go/internal"
	"github.com/markusressel/fan2go/internal/configuration"
	"github.com/markusressel/fan2go/internal/control_loop"
	"github.com/markusressel/fan2go/internal/controller"
	"github.com/markusressel/fan2go/internal/fans"
	"github.com/markusressel/fan2go/verifharness/sim"
	"pgregory.net/rapid"
)

type c04bFan struct {
	Min       int    `json:"min"`
	Max       int    `json:"max"`
	Never     bool   `json:"neverStop"`
	Algo      string `json:"algo"` // default | direct | limit | pid | directWord | pidWord
	MaxChange int    `json:"maxChange,omitempty"`
	Cv        int    `json:"cv"`
	OrigPwm   int    `json:"origPwm"`
}

type c04bScenario struct {
	TickMs int       `json:"tickMs"`
	Fans   []c04bFan `json:"fans"`
}

func genC04B(t *rapid.T) c04bScenario {
	sc := c04bScenario{TickMs: rapid.SampledFrom([]int{50, 100, 200, 200, 500, 1000, 2000}).Draw(t, "tickMs")}
	n := rapid.IntRange(1, 3).Draw(t, "nFans")
	for i := 0; i < n; i++ {
		mn, mx, never := genC04Limits(t)
		f := c04bFan{Min: mn, Max: mx, Never: never, Algo: rapid.SampledFrom([]string{"default", "default", "direct", "limit", "limit", "pid"}).Draw(t, "algo"),
			Cv: rapid.OneOf(rapid.IntRange(0, 255), rapid.SampledFrom([]int{0, 1, 254, 255})).Draw(t, "cv"), OrigPwm: rapid.IntRange(0, 255).Draw(t, "origPwm")}
		if f.Algo == "limit" {
			f.MaxChange = rapid.SampledFrom([]int{1, 2, 3, 5, 10, 50, 255}).Draw(t, "maxChange")
		}
		sc.Fans = append(sc.Fans, f)
	}
	return sc
}

func (f c04bFan) algorithm() *configuration.ControlAlgorithmConfig {
	switch f.Algo {
	case "direct":
		return &configuration.ControlAlgorithmConfig{Direct: &configuration.DirectControlAlgorithmConfig{}}
	case "limit":
		m := f.MaxChange
		return &configuration.ControlAlgorithmConfig{Direct: &configuration.DirectControlAlgorithmConfig{MaxPwmChangePerCycle: &m}}
	case "pid":
		return &configuration.ControlAlgorithmConfig{Pid: &configuration.PidControlAlgorithmConfig{P: 0.3, I: 0.02, D: 0.005}}
	}
	return nil // no controlAlgorithm entry: the documented default (PID with the default gains)
}

// c04bRun runs all fans side by side for `cycles` control cycles and returns the request of every fan after
// every cycle (identity PWM map: the device value is the request).
func c04bRun(t *testing.T, sc c04bScenario, cycles int, viaBackend bool) (trace [][]int, err error) {
	sim.BaseConfig()
	tick := time.Duration(sc.TickMs) * time.Millisecond
	configuration.CurrentConfig.ControllerAdjustmentTickRate = tick
	configuration.CurrentConfig.RpmPollingRate = time.Second + 137*time.Nanosecond
	pers := sim.NewMemPersistence()
	var rigs []*sim.Rig
	for i, f := range sc.Fans {
		spec := c04Scenario{Min: f.Min, Max: f.Max, Never: f.Never}.fan()
		spec.OrigPwm = f.OrigPwm
		r := sim.BuildRig(spec, i, sim.RpmLaw{Theta: 0, Rpm: 1000}, f.Cv)
		pers.SeedLinearData(r.Fan.GetId())
		rigs = append(rigs, r)
	}
	defer func() {
		for _, r := range rigs {
			r.Close()
		}
	}()
	ctls := make([]controller.FanController, len(rigs))
	if viaBackend {
		fanMap := map[configuration.FanConfig]fans.Fan{}
		for i, r := range rigs {
			fanMap[configuration.FanConfig{ID: r.Fan.GetId(), ControlAlgorithm: sc.Fans[i].algorithm()}] = r.Fan
		}
		freshPrometheus()
		built, e := internal.VerifInitializeFanControllers(pers, fanMap)
		if e != nil {
			return nil, e
		}
		for i, r := range rigs {
			ctls[i] = built[r.Fan]
			if ctls[i] == nil {
				return nil, fmt.Errorf("no controller was built for fan %s", r.Fan.GetId())
			}
		}
	} else {
		for i, r := range rigs {
			ctls[i] = controller.NewFanController(pers, r.Fan, control_loop.NewDirectControlLoop(nil), tick)
		}
	}
	trace = make([][]int, len(rigs))
	synctest.Test(t, func(*testing.T) {
		controller.VerifResetInitMutex()
		t0 := time.Now()
		ctx, cancel := context.WithCancel(context.Background())
		defer cancel()
		done := make(chan error, len(rigs))
		for i, r := range rigs {
			for _, d := range []*sim.Dev{r.Pwm, r.Enable, r.Rpm} {
				d.SetT0(t0)
			}
			r.Curve.Rebase(t0)
			go func() { done <- ctls[i].Run(ctx) }()
		}
		for _, r := range rigs {
			<-r.Curve.FirstEval
		}
		synctest.Wait()
		time.Sleep(tick / 2)
		for c := 0; c < cycles; c++ {
			for i, r := range rigs {
				trace[i] = append(trace[i], r.Pwm.Get())
			}
			time.Sleep(tick)
			synctest.Wait()
		}
		cancel()
		for range rigs {
			<-done
		}
	})
	return trace, nil
}

func runC04B(t *testing.T, sc c04bScenario) verdict {
	cycles := 40
	for _, f := range sc.Fans {
		switch f.Algo {
		case "default", "pid":
			cycles = max(cycles, c04NPid+40)
		case "limit":
			cycles = max(cycles, 255/f.MaxChange+12)
		}
	}
	got, err := c04bRun(t, sc, cycles, true)
	if errors.Is(err, internal.ErrVerifHookUnavailable) {
		return verdict{labels: []string{"backend-hook-unavailable"}}
	}
	if err != nil {
		return verdict{vs: []sim.Violation{{Key: "backend-builds-no-controller", Msg: err.Error()}}}
	}
	ref, _ := c04bRun(t, sc, 4, false)
	var vs []sim.Violation
	add := func(k, m string) {
		if len(vs) < 4 {
			vs = append(vs, sim.Violation{Key: k, Msg: m})
		}
	}
	nt := len(sc.Fans) > 1
	for i, f := range sc.Fans {
		S := ref[i][len(ref[i])-1]
		tr := got[i]
		desc := fmt.Sprintf("fan %d (limits [%d,%d] neverStop %v, algorithm %s %d, curve %d, tick %d ms, %d fans)", i, f.Min, f.Max, f.Never, f.Algo, f.MaxChange, f.Cv, sc.TickMs, len(sc.Fans))
		switch f.Algo {
		case "direct":
			for c := 1; c < len(tr); c++ {
				if tr[c] != S {
					add("backend-direct-not-at-steady-value", fmt.Sprintf("%s: request %d in cycle %d, steady value %d", desc, tr[c], c, S))
					break
				}
			}
		case "limit":
			for c := 1; c < len(tr); c++ {
				if abs(tr[c]-tr[c-1]) > f.MaxChange {
					add("backend-step-exceeds-limit", fmt.Sprintf("%s: request went %d -> %d in one cycle", desc, tr[c-1], tr[c]))
					break
				}
				if abs(tr[c]-S) > abs(tr[c-1]-S) {
					add("backend-moves-away-from-steady-value", fmt.Sprintf("%s: request went %d -> %d, steady value %d", desc, tr[c-1], tr[c], S))
					break
				}
			}
			if n := 255/f.MaxChange + 4; n < len(tr) && tr[n] != S {
				add("backend-limited-does-not-settle", fmt.Sprintf("%s: after %d cycles the request is %d, steady value %d (last %v)", desc, n, tr[n], S, tail(tr, 6)))
			}
			if abs(tr[0]-S) > 2*f.MaxChange {
				nt = true
			}
		default: // default PID / explicit default gains
			settle := len(tr)
			for c := len(tr) - 1; c >= 0; c-- {
				if abs(tr[c]-S) > 1 {
					break
				}
				settle = c
			}
			if settle > c04NPid {
				add("backend-pid-does-not-settle", fmt.Sprintf("%s: direct algorithm gives %d, after %d cycles the request is at %v", desc, S, len(tr), tail(tr, 6)))
			}
			if abs(tr[0]-S) >= 20 {
				nt = true
			}
		}
	}
	labels := []string{"backend", fmt.Sprintf("fans:%d", len(sc.Fans)), fmt.Sprintf("tick:%d", sc.TickMs)}
	for _, f := range sc.Fans {
		labels = append(labels, "algo:"+f.Algo)
	}
	out := map[string]any{}
	for i := range sc.Fans {
		out[fmt.Sprintf("fan%d", i)] = map[string]any{"steady": ref[i][len(ref[i])-1], "first": got[i][0], "last": tail(got[i], 4)}
	}
	return verdict{vs: vs, nontrivial: nt, labels: labels, outcome: out}
}

func TestC04Backend(t *testing.T) { runProperty(t, "C04", genC04B, runC04B) }
