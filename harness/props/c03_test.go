package props

// C03 (in-process tier) - stopping regulation hands the fan back or leaves it at full speed.
//
// Stop event = cancellation at a drawn virtual time (start-up wait, analysis, first-second delay,
// between ticks, exactly on a tick) or a control error (never-stop fan stalled at max).
// Driver faults during restoration: PWM write / mode write in {ok, refused, silently ignored},
// mode read-back in {ok, EACCES, EIO}.
// Oracle on the final device state once Run has returned:
//    regulated => (origMode != 1 && mode_f == origMode) || last PWM state is full speed (255)

import (
	"fmt"
	"testing"

	"github.com/markusressel/fan2go/verifharness/sim"
	"pgregory.net/rapid"
)

type c03Scenario struct {
	Loop      sim.LoopScenario `json:"loop"`
	FaultFrom int              `json:"faultFrom"` // steps from this index on already run under the restoration faults (-1: only from cancellation on)
}

func genC03(t *rapid.T) c03Scenario {
	fan, _ := genFan(t, fanOpts{alwaysRpm: false})
	path := rapid.IntRange(0, 11).Draw(t, "path")
	sc := sim.LoopScenario{Fan: fan, Loop: genLoop(t, false), TickMs: rapid.SampledFrom([]int{50, 100, 200, 1000}).Draw(t, "tickMs"),
		RpmPollMs: 1000, RpmWindow: rapid.SampledFrom([]int{1, 3, 10}).Draw(t, "window"), Law: sim.RpmLaw{Theta: 0, Rpm: 900}}
	faultFrom := -1
	// restoration faults
	wm := rapid.SampledFrom([]int{sim.WriteOK, sim.WriteOK, sim.WriteRefuse, sim.WriteIgnore})
	sc.Stop.ModeWrite = wm.Draw(t, "modeWrite")
	sc.Stop.PwmWrite = rapid.SampledFrom([]int{sim.WriteOK, sim.WriteOK, sim.WriteOK, sim.WriteOK, sim.WriteRefuse, sim.WriteIgnore}).Draw(t, "pwmWrite")
	sc.Stop.ModeRead = rapid.SampledFrom([]int{sim.ReadOK, sim.ReadOK, sim.ReadOK, sim.ReadEACCES, sim.ReadEIO}).Draw(t, "modeRead")
	switch {
	case path <= 4:
		// cancellation at a drawn time: start-up wait (0..2.4s), delay (..3.4s), ticking
		sc.Stop.AtMs = rapid.OneOf(rapid.IntRange(0, 3400+25*sc.TickMs), rapid.SampledFrom([]int{0, 2399, 2400, 2401, 3399, 3400, 3401, 3400 + sc.TickMs, 3400 + 2*sc.TickMs, 3400 + 7*sc.TickMs})).Draw(t, "atMs")
		sc.Stop.OnGrid = rapid.Bool().Draw(t, "onGrid")
		sc.Steps = []sim.Step{{Curve: rapid.IntRange(0, 255).Draw(t, "cv")}}
	case path <= 6:
		// cancellation while the fan is being analysed (nothing stored)
		sc.Fan.NoStored = true
		sc.Fan.PwmMap = nil // no configured map: the controller sweeps the fan
		if rapid.Bool().Draw(t, "cfgMap") {
			sc.Fan.PwmMap = identityMap()
		}
		sc.Stop.AtMs = rapid.OneOf(rapid.IntRange(2400, 20000), rapid.IntRange(2400, 600000)).Draw(t, "atMs")
		sc.Steps = []sim.Step{{Curve: rapid.IntRange(0, 255).Draw(t, "cv")}}
	case path <= 8:
		// cancellation after a history of cycles
		sc.Stop.AtMs = -1
		n := rapid.IntRange(1, 30).Draw(t, "n")
		cvGen := rapid.OneOf(rapid.IntRange(0, 255), rapid.IntRange(0, 255), rapid.SampledFrom([]int{0, 255}))
		for i := 0; i < n; i++ {
			sc.Steps = append(sc.Steps, sim.Step{Curve: cvGen.Draw(t, "cv")})
		}
		// a write-only fan: whatever fan2go believes the fan is at, it has only its own last write to go by
		sc.PwmUnreadable = sc.Fan.Kind != "cmd" && rapid.IntRange(0, 2).Draw(t, "pwmUnreadable") == 0
	case path >= 10:
		// the stop request arrives while a control cycle is in flight (the harness owns that schedule:
		// the cancellation is issued from inside a device write of the cycle, which is then held)
		sc.Stop.AtMs = -1
		sc.Stop.MidTick = true
		sc.Stop.HoldMs = rapid.SampledFrom([]int{0, 1, 20, 300}).Draw(t, "holdMs")
		sc.Fan.NoRpm = false
		if sc.Fan.Kind == "cmd" {
			sc.Fan.Kind = "file"
		}
		n := rapid.IntRange(1, 10).Draw(t, "n")
		for i := 0; i < n; i++ {
			sc.Steps = append(sc.Steps, sim.Step{Curve: rapid.IntRange(0, 255).Draw(t, "cv")})
		}
	default:
		// control error: never-stop fan that never spins, stalled at max; faults already in force
		sc.Stop.AtMs = -1
		if sc.Fan.Kind == "cmd" {
			sc.Fan.Kind = "file" // 255 raises of a script based fan would only cost time
		}
		sc.Fan.NeverStop = true
		sc.Fan.NoRpm = false
		sc.Fan.PwmMap, sc.Fan.Quant = identityMap(), 0
		sc.Fan.Measured = nil
		sc.Loop = sim.LoopSpec{Kind: "direct"}
		if sc.Fan.Kind == "hwmon" {
			mn := rapid.IntRange(0, 250).Draw(t, "min")
			sc.Fan.MinPwm, sc.Fan.MaxPwm = ip(mn), ip(mn+rapid.IntRange(1, 5).Draw(t, "span"))
			sc.Law = sim.RpmLaw{Theta: 256, Rpm: 900}
		} else {
			// a file fan has limits 0..255: 255 raises; let it spin nowhere
			sc.Law = sim.RpmLaw{Theta: 256, Rpm: 900}
		}
		sc.RpmWindow = 1
		sc.RpmPollMs = sc.TickMs
		n := 40
		if sc.Fan.Kind == "file" {
			n = 3 * 260
		}
		for i := 0; i < n; i++ {
			sc.Steps = append(sc.Steps, sim.Step{Curve: 0})
		}
		faultFrom = rapid.IntRange(1, 3).Draw(t, "faultFrom")
	}
	if faultFrom >= 0 {
		for i := faultFrom; i < len(sc.Steps); i++ {
			sc.Steps[i].PwmWrite, sc.Steps[i].ModeWrite, sc.Steps[i].ModeRead = sc.Stop.PwmWrite, sc.Stop.ModeWrite, sc.Stop.ModeRead
		}
	}
	return c03Scenario{Loop: sc, FaultFrom: faultFrom}
}

// c03Judge applies the final-state predicate. It returns (violation text, excluded reason).
func c03Judge(f sim.FanSpec, stop sim.StopSpec, res sim.LoopResult) (string, string) {
	if res.Hung {
		return "Run did not return within 40 virtual minutes after cancellation", ""
	}
	regulated := len(res.AllWrites) > 0 || len(res.ModeWrites) > 0
	if !regulated {
		return "", "not-regulated"
	}
	hasMode := f.Kind == "hwmon" && !f.NoEnable
	if hasMode && f.OrigMode != 1 && res.FinalMode == f.OrigMode {
		return "", ""
	}
	q255 := 255
	if f.Quant > 1 {
		q255 = (255 / f.Quant) * f.Quant
	}
	if res.FinalPwm == q255 {
		return "", ""
	}
	// nothing satisfied; is anything demanded?
	modeRestorable := hasMode && f.OrigMode != 1 && stop.ModeWrite == sim.WriteOK
	if !modeRestorable {
		if stop.PwmWrite != sim.WriteOK {
			return "", "pwm-unwritable" // the driver accepts nothing: no implementation could do better
		}
	}
	if hasMode && f.OrigMode != 1 && stop.ModeWrite == sim.WriteIgnore && stop.ModeRead != sim.ReadOK {
		return "", "mode-ignored-and-unreadable" // fan2go cannot find out that the write was ignored
	}
	return fmt.Sprintf("fan left in mode %d at PWM %d (original mode %d, original PWM %d, control-mode support %v; restoration faults: pwm write %d, mode write %d, mode read %d; restore writes %v, mode writes %v)",
		res.FinalMode, res.FinalPwm, f.OrigMode, f.OrigPwm, hasMode, stop.PwmWrite, stop.ModeWrite, stop.ModeRead, tailW(res.RestoreLog, 4), tailW(res.ModeWrites, 3)), ""
}

func tailW(w []sim.WriteRec, n int) []int {
	var out []int
	for _, x := range w {
		out = append(out, x.V)
	}
	return tail(out, n)
}

func runC03(t *testing.T, sc c03Scenario) verdict {
	res := sim.RunLoop(t, sc.Loop)
	var vs []sim.Violation
	msg, excl := c03Judge(sc.Loop.Fan, sc.Loop.Stop, res)
	if msg != "" {
		key := "left-manual-at-reduced-speed"
		if res.Hung {
			key = "run-does-not-return"
		}
		vs = append(vs, sim.Violation{Key: key, Msg: msg})
	}
	if res.RunErr != "" && res.Started {
		vs = append(vs, sim.Violation{Key: "run-returned-error-after-regulation-began", Msg: res.RunErr})
	}
	labels := []string{"kind:" + sc.Loop.Fan.Kind, fmt.Sprintf("origMode:%d", sc.Loop.Fan.OrigMode)}
	if sc.Loop.PwmUnreadable {
		labels = append(labels, "pwm-write-only")
	}
	if excl != "" {
		labels = append(labels, "excluded:"+excl)
	}
	phase := "ticking"
	switch {
	case sc.FaultFrom >= 0:
		phase = "control-error"
	case sc.Loop.Fan.NoStored:
		phase = "analysis"
	case sc.Loop.Stop.MidTick:
		phase = "mid-tick"
	case sc.Loop.Stop.AtMs >= 0 && sc.Loop.Stop.AtMs < 2400:
		phase = "startup-wait"
	case sc.Loop.Stop.AtMs >= 0 && sc.Loop.Stop.AtMs <= 3400:
		phase = "first-second-delay"
	}
	labels = append(labels, "phase:"+phase)
	if res.Ended {
		labels = append(labels, "ended-by-control-error")
	}
	st := sc.Loop.Stop
	faulty := st.ModeWrite != 0 || st.PwmWrite != 0 || st.ModeRead != 0
	regulated := len(res.AllWrites) > 0 || len(res.ModeWrites) > 0
	nt := regulated && excl == "" && (faulty || sc.Loop.Fan.OrigMode == 1 || sc.Loop.Fan.OrigMode > 2 || res.Ended)
	return verdict{vs: vs, nontrivial: nt, labels: labels, outcome: map[string]any{"started": res.Started, "ended": res.Ended, "finalMode": res.FinalMode, "finalPwm": res.FinalPwm,
		"restoreWrites": tailW(res.RestoreLog, 4), "firstEvalMs": res.FirstEval.Milliseconds()}}
}

func TestC03(t *testing.T) { runProperty(t, "C03", genC03, runC03) }
