package props

// C14 - stored fan data round-trips and is isolated per fan and per kind.
//
// Model-based: a generated sequence of save/load/delete/reopen/corrupt operations over 4 fan ids
// and both kinds is applied to the real bbolt persistence and to two Go maps; after every step the
// load results equal the model, and after every mutating op a full scan (all ids x both kinds)
// equals the model (isolation).

import (
	"errors"
	"fmt"
	"os"
	"path/filepath"
	"reflect"
	"testing"

	"github.com/markusressel/fan2go/internal/configuration"
	"github.com/markusressel/fan2go/internal/fans"
	"github.com/markusressel/fan2go/internal/persistence"
	"github.com/markusressel/fan2go/verifharness/sim"
	bolt "go.etcd.io/bbolt"
	"pgregory.net/rapid"
)

var c14Ids = []string{"fan", "fan1", "fa", " ", "fan/x"}

type c14Op struct {
	Op    string          `json:"op"` // saveData loadData deleteData saveMap loadMap deleteMap reopen corrupt
	Id    int             `json:"id"`
	Data  map[int]float64 `json:"data,omitempty"`
	Map   map[int]int     `json:"map,omitempty"`
	Kind  string          `json:"kind,omitempty"` // corrupt: data | map
	Bytes string          `json:"bytes,omitempty"`
}

type c14Scenario struct {
	Ops []c14Op `json:"ops"`
}

func genC14Data(t *rapid.T) map[int]float64 {
	n := rapid.IntRange(0, 12).Draw(t, "n")
	m := map[int]float64{}
	for i := 0; i < n; i++ {
		k := rapid.OneOf(rapid.IntRange(-300, 1000), rapid.IntRange(0, 255)).Draw(t, "k")
		m[k] = rapid.OneOf(rapid.Float64Range(0, 10000), rapid.SampledFrom([]float64{0, 0.5, 1e-300, 1e15, 1.7e308, 1234.5678, -3})).Draw(t, "v")
	}
	return m
}

func genC14Map(t *rapid.T) map[int]int {
	n := rapid.IntRange(0, 12).Draw(t, "n")
	m := map[int]int{}
	for i := 0; i < n; i++ {
		m[rapid.IntRange(-300, 1000).Draw(t, "k")] = rapid.IntRange(-5, 300).Draw(t, "v")
	}
	return m
}

func genC14(t *rapid.T) c14Scenario {
	var sc c14Scenario
	n := rapid.IntRange(1, 60).Draw(t, "nOps")
	ops := []string{"saveData", "saveData", "loadData", "loadData", "deleteData", "saveMap", "saveMap", "loadMap", "loadMap", "deleteMap", "reopen", "corrupt"}
	for i := 0; i < n; i++ {
		op := c14Op{Op: rapid.SampledFrom(ops).Draw(t, "op"), Id: rapid.IntRange(0, len(c14Ids)-1).Draw(t, "id")}
		switch op.Op {
		case "saveData":
			op.Data = genC14Data(t)
		case "saveMap":
			op.Map = genC14Map(t)
		case "corrupt":
			op.Kind = rapid.SampledFrom([]string{"data", "map"}).Draw(t, "kind")
			op.Bytes = rapid.SampledFrom([]string{"", "{", "not json", "[1,2]", "{\"a\":1}", "\x00\xff", "{\"1\":\"x\"}", "{\"1\":1.5,\"2\":"}).Draw(t, "bytes")
		}
		sc.Ops = append(sc.Ops, op)
	}
	return sc
}

// c14Fan is a minimal fans.Fan carrying an id and curve data (what the persistence API needs).
func c14Fan(id string, data map[int]float64) fans.Fan {
	f, _ := fans.NewFan(configuration.FanConfig{ID: id, HwMon: &configuration.HwMonFanConfig{}})
	if data != nil {
		d := map[int]float64{}
		for k, v := range data {
			d[k] = v
		}
		f.(*fans.HwMonFan).FanCurveData = &d
	}
	return f
}

func sameData(a, b map[int]float64) bool {
	if len(a) == 0 && len(b) == 0 {
		return true
	}
	return reflect.DeepEqual(a, b)
}
func sameMap(a, b map[int]int) bool {
	if len(a) == 0 && len(b) == 0 {
		return true
	}
	return reflect.DeepEqual(a, b)
}

type c14Model struct {
	data map[string]map[int]float64
	maps map[string]map[int]int
}

// c14Scan compares every entry of both kinds with the model.
func c14Scan(p persistence.Persistence, m *c14Model, skipId string, skipKind string) []sim.Violation {
	var vs []sim.Violation
	for _, id := range c14Ids {
		if !(id == skipId && skipKind == "data") {
			got, err := p.LoadFanPwmData(c14Fan(id, nil))
			want, ok := m.data[id]
			switch {
			case ok && (err != nil || !sameData(got, want)):
				vs = append(vs, sim.Violation{Key: "data-lost-or-changed", Msg: fmt.Sprintf("RPM data of %q: stored %v, loaded %v (err %v)", id, want, got, err)})
			case !ok && !errors.Is(err, os.ErrNotExist):
				vs = append(vs, sim.Violation{Key: "data-resurrected", Msg: fmt.Sprintf("RPM data of %q: nothing stored, load returned %v (err %v)", id, got, err)})
			}
		}
		if !(id == skipId && skipKind == "map") {
			got, err := p.LoadFanPwmMap(id)
			want, ok := m.maps[id]
			switch {
			case ok && (err != nil || !sameMap(got, want)):
				vs = append(vs, sim.Violation{Key: "map-lost-or-changed", Msg: fmt.Sprintf("PWM map of %q: stored %v, loaded %v (err %v)", id, want, got, err)})
			case !ok && !errors.Is(err, os.ErrNotExist):
				vs = append(vs, sim.Violation{Key: "map-resurrected", Msg: fmt.Sprintf("PWM map of %q: nothing stored, load returned %v (err %v)", id, got, err)})
			}
		}
	}
	return vs
}

func c14Corrupt(dbPath, kind, id, bytes string) error {
	db, err := bolt.Open(dbPath, 0600, nil)
	if err != nil {
		return err
	}
	defer db.Close()
	bucket := persistence.BucketFans
	if kind == "map" {
		bucket = persistence.BucketFanPwmMap
	}
	return db.Update(func(tx *bolt.Tx) error {
		b, err := tx.CreateBucketIfNotExists([]byte(bucket))
		if err != nil {
			return err
		}
		return b.Put([]byte(id), []byte(bytes))
	})
}

func runC14(t *testing.T, sc c14Scenario) (v verdict) {
	dbPath := filepath.Join(sim.WorkDir(), "c14", "sub", "fan2go.db")
	_ = os.RemoveAll(filepath.Dir(filepath.Dir(dbPath)))
	defer os.RemoveAll(filepath.Dir(filepath.Dir(dbPath)))
	var vs []sim.Violation
	defer func() {
		if r := recover(); r != nil {
			v = verdict{vs: append(vs, sim.Violation{Key: "panic", Msg: fmt.Sprint(r)})}
		}
	}()
	p := persistence.NewPersistence(dbPath)
	if err := p.Init(); err != nil {
		return verdict{vs: []sim.Violation{{Key: "init-failed", Msg: err.Error()}}}
	}
	m := &c14Model{data: map[string]map[int]float64{}, maps: map[string]map[int]int{}}
	mutations, idsTouched, kindsTouched, loadsAfter, corruptions, reopens := 0, map[int]bool{}, map[string]bool{}, 0, 0, 0
	fail := func(i int, op c14Op, k, msg string) {
		if len(vs) < 4 {
			vs = append(vs, sim.Violation{Key: k, Msg: fmt.Sprintf("op %d (%s %q): %s", i, op.Op, c14Ids[op.Id], msg)})
		}
	}
	for i, op := range sc.Ops {
		id := c14Ids[op.Id]
		mutating := false
		switch op.Op {
		case "saveData":
			if err := p.SaveFanPwmData(c14Fan(id, nonNil(op.Data))); err != nil {
				fail(i, op, "save-failed", err.Error())
			}
			m.data[id] = op.Data
			mutating, kindsTouched["data"] = true, true
		case "saveMap":
			if err := p.SaveFanPwmMap(id, op.Map); err != nil {
				fail(i, op, "save-failed", err.Error())
			}
			m.maps[id] = op.Map
			mutating, kindsTouched["map"] = true, true
		case "deleteData":
			if err := p.DeleteFanPwmData(c14Fan(id, nil)); err != nil {
				fail(i, op, "delete-not-idempotent", err.Error())
			}
			delete(m.data, id)
			mutating = true
		case "deleteMap":
			if err := p.DeleteFanPwmMap(id); err != nil {
				fail(i, op, "delete-not-idempotent", err.Error())
			}
			delete(m.maps, id)
			mutating = true
		case "loadData":
			got, err := p.LoadFanPwmData(c14Fan(id, nil))
			want, ok := m.data[id]
			if ok && (err != nil || !sameData(got, want)) {
				fail(i, op, "data-lost-or-changed", fmt.Sprintf("stored %v, loaded %v (err %v)", want, got, err))
			}
			if !ok && !errors.Is(err, os.ErrNotExist) {
				fail(i, op, "missing-entry-not-reported", fmt.Sprintf("nothing stored, load returned %v (err %v)", got, err))
			}
			if mutations >= 2 {
				loadsAfter++
			}
		case "loadMap":
			got, err := p.LoadFanPwmMap(id)
			want, ok := m.maps[id]
			if ok && (err != nil || !sameMap(got, want)) {
				fail(i, op, "map-lost-or-changed", fmt.Sprintf("stored %v, loaded %v (err %v)", want, got, err))
			}
			if !ok && !errors.Is(err, os.ErrNotExist) {
				fail(i, op, "missing-entry-not-reported", fmt.Sprintf("nothing stored, load returned %v (err %v)", got, err))
			}
			if mutations >= 2 {
				loadsAfter++
			}
		case "reopen":
			p = persistence.NewPersistence(dbPath)
			reopens++
		case "corrupt":
			if err := c14Corrupt(dbPath, op.Kind, id, op.Bytes); err != nil {
				fail(i, op, "harness", err.Error())
				break
			}
			corruptions++
			// the load that meets the undecodable entry: must not panic, must not return another entry's data
			if op.Kind == "data" {
				_, _ = p.LoadFanPwmData(c14Fan(id, nil))
				delete(m.data, id)
				// ... and every later load of it reports not-found
				if got, err := p.LoadFanPwmData(c14Fan(id, nil)); !errors.Is(err, os.ErrNotExist) && !decodable(op.Bytes, "data") {
					fail(i, op, "corrupt-entry-not-discarded", fmt.Sprintf("bytes %q: second load returned %v (err %v)", op.Bytes, got, err))
				} else if err == nil {
					// the bytes happened to be decodable: the model takes what was decoded
					m.data[id] = got
				}
			} else {
				_, _ = p.LoadFanPwmMap(id)
				delete(m.maps, id)
				if got, err := p.LoadFanPwmMap(id); !errors.Is(err, os.ErrNotExist) && !decodable(op.Bytes, "map") {
					fail(i, op, "corrupt-entry-not-discarded", fmt.Sprintf("bytes %q: second load returned %v (err %v)", op.Bytes, got, err))
				} else if err == nil {
					m.maps[id] = got
				}
			}
			mutating = true
		}
		if mutating {
			mutations++
			idsTouched[op.Id] = true
			if s := c14Scan(p, m, "", ""); len(s) > 0 {
				for _, x := range s {
					fail(i, op, x.Key, "full scan after this operation: "+x.Msg)
				}
			}
		}
		if len(vs) > 0 {
			break
		}
	}
	labels := []string{}
	if reopens > 0 {
		labels = append(labels, "reopen")
	}
	if corruptions > 0 {
		labels = append(labels, "corrupt")
	}
	nt := loadsAfter > 0 && (len(idsTouched) >= 2 || len(kindsTouched) >= 2)
	return verdict{vs: vs, nontrivial: nt, labels: labels}
}

func nonNil(m map[int]float64) map[int]float64 {
	if m == nil {
		return map[int]float64{}
	}
	return m
}

// decodable: does encoding/json accept the bytes for the target type? (then it is not "undecodable")
func decodable(b string, kind string) bool {
	switch b {
	case "{\"1\":1.5,\"2\":", "", "{", "not json", "[1,2]", "\x00\xff":
		return false
	case "{\"a\":1}":
		return false
	case "{\"1\":\"x\"}":
		return false
	}
	return true
}

func TestC14(t *testing.T) { runProperty(t, "C14", genC14, runC14) }
