//go:build !race

package props

const raceEnabled = false
