package props

// C09 - a failing sensor or fan read/write never crashes the daemon.   (fault enumeration)
//
// For each combination of fan backend x sensor backend x curve type a closed loop is assembled from
// real objects by the real internal.InitializeObjects (sensor monitor, curves, controller.Run) and
// run for 25 control cycles in a bubble. Enumerated: every single fault (component x kind x first
// cycle x length) and, in the thorough tier, every pair over a reduced index set.
// Oracle: (1) the process does not die and nothing panics (each case is written to $VERIF_CASEFILE
// first; a dead worker is reported with that case); (2) Run does not return an error; (3) after the
// fault window either regulation goes on (curve evaluations continue; for transient non-RPM faults
// on stateless curves the fan ends at the undisturbed twin's PWM) or the fan was handed back
// (original mode or PWM 255).

import (
	"context"
	"fmt"
	"os"
	"path/filepath"
	"strconv"
	"sync"
	"testing"
	"testing/synctest"
	"time"

	"github.com/markusressel/fan2go/internal"
	"github.com/markusressel/fan2go/internal/configuration"
	"github.com/markusressel/fan2go/internal/controller"
	"github.com/markusressel/fan2go/internal/curves"
	"github.com/markusressel/fan2go/internal/fans"
	"github.com/markusressel/fan2go/internal/persistence"
	"github.com/markusressel/fan2go/internal/sensors"
	"github.com/markusressel/fan2go/verifharness/sim"
)

type c09Fault struct {
	Comp string `json:"comp"` // sensorRead | rpmRead | pwmRead | pwmWrite | modeWrite
	Kind string `json:"kind"` // io | garbage | empty (reads) ; refuse | ignore (writes)
	From int    `json:"from"` // first cycle (1-based)
	Len  int    `json:"len"`  // 0 = until the end
}

type c09Scenario struct {
	Fan       string     `json:"fan"`    // hwmon | file | cmd
	Sensor    string     `json:"sensor"` // hwmon | file | cmd
	Curve     string     `json:"curve"`  // linear | pid | fn-lin-pid | fn-fn-pid
	NeverStop bool       `json:"neverStop"`
	RealDb    bool       `json:"realDb"`
	Faults    []c09Fault `json:"faults"`
}

const c09Cycles = 25

// probeCurve counts evaluations of the fan's curve.
type probeCurve struct {
	mu    sync.Mutex
	inner curves.SpeedCurve
	n     int
}

func (p *probeCurve) GetId() string { return "probe" }
func (p *probeCurve) Evaluate() (int, error) {
	p.mu.Lock()
	p.n++
	p.mu.Unlock()
	return p.inner.Evaluate()
}
func (p *probeCurve) CurrentValue() int { return p.inner.CurrentValue() }
func (p *probeCurve) evals() int        { p.mu.Lock(); defer p.mu.Unlock(); return p.n }

// cmdState is the state directory of script based fans/sensors.
type cmdState struct{ dir string }

func (c cmdState) set(name, v string) { _ = os.WriteFile(filepath.Join(c.dir, name), []byte(v), 0644) }
func (c cmdState) get(name string) string {
	b, _ := os.ReadFile(filepath.Join(c.dir, name))
	return string(b)
}

type c09Rig struct {
	dir               string
	pwm, enable, rpm  *sim.Dev // hwmon / file fans
	temp              *sim.Dev // hwmon / file sensors
	fanCmd, sensCmd   *cmdState
	fan               fans.Fan
	probe             *probeCurve
	hasMode           bool
	origMode, origPwm int
	paths             []string
	lastTemp          int
	scripts           map[string]string // component -> script (script based backends)
}

func writeScript(path, body string) {
	_ = os.WriteFile(path, []byte("#!/bin/sh\n"+body), 0755)
	_ = os.Chmod(path, 0755)
}

// c09FanCfgHook lets another check (C13's daemon-path unit) adjust the fan entry before the daemon's
// own InitializeObjects turns the configuration into objects.
var c09FanCfgHook func(*configuration.FanConfig)

func buildC09(sc c09Scenario) (*c09Rig, error) {
	dir, err := os.MkdirTemp(sim.WorkDir(), "c09-")
	if err != nil {
		return nil, err
	}
	r := &c09Rig{dir: dir, origMode: 2, origPwm: 97, scripts: map[string]string{}}
	sim.BaseConfig()
	cfg := &configuration.CurrentConfig
	cfg.TempSensorPollingRate = 50*time.Millisecond + 71*time.Nanosecond // off the control ticks' time grid
	cfg.TempRollingWindowSize = 2
	cfg.RpmPollingRate = 300*time.Millisecond + 137*time.Nanosecond
	cfg.RpmRollingWindowSize = 2
	cfg.ControllerAdjustmentTickRate = 200 * time.Millisecond
	tree := filepath.Join(dir, "hwmon")
	os.Setenv("FAN2GO_VERIF_HWMON_ROOT", tree)
	reg := func(d *sim.Dev, p string) {
		d.Register(p)
		r.paths = append(r.paths, p)
	}
	// ---- sensor
	sensCfg := configuration.SensorConfig{ID: "s1"}
	switch sc.Sensor {
	case "hwmon":
		chip := filepath.Join(tree, "hwmon1")
		os.MkdirAll(chip, 0755)
		os.WriteFile(filepath.Join(chip, "name"), []byte("coretemp\n"), 0644)
		os.WriteFile(filepath.Join(chip, "verif_bus"), []byte("1 0 0x0\n"), 0644)
		p := filepath.Join(chip, "temp1_input")
		os.WriteFile(p, []byte("30000\n"), 0644)
		r.temp = sim.NewDev(p, 30000)
		reg(r.temp, p)
		sensCfg.HwMon = &configuration.HwMonSensorConfig{Platform: "coretemp", Index: 1}
	case "file":
		p := filepath.Join(dir, "temp")
		r.temp = sim.NewDev(p, 30000)
		reg(r.temp, p)
		sensCfg.File = &configuration.FileSensorConfig{Path: p}
	default:
		sd := filepath.Join(dir, "sens")
		os.MkdirAll(sd, 0755)
		r.sensCmd = &cmdState{sd}
		r.sensCmd.set("val", "30000\n")
		r.sensCmd.set("code", "0")
		script := filepath.Join(dir, "sensor.sh")
		writeScript(script, "cat "+sd+"/val\nexit $(cat "+sd+"/code)\n")
		r.scripts["sensorRead"] = script
		sensCfg.Cmd = &configuration.CmdSensorConfig{Exec: script}
	}
	cfg.Sensors = []configuration.SensorConfig{sensCfg}
	// ---- curves
	lin := configuration.CurveConfig{ID: "lin", Linear: &configuration.LinearCurveConfig{Sensor: "s1", Min: 30, Max: 80}}
	lin2 := configuration.CurveConfig{ID: "lin2", Linear: &configuration.LinearCurveConfig{Sensor: "s1", Steps: map[int]float64{20: 10, 50: 120, 90: 255}}}
	pid := configuration.CurveConfig{ID: "pid", PID: &configuration.PidCurveConfig{Sensor: "s1", SetPoint: 40, P: -0.05, I: -0.005, D: -0.006}}
	switch sc.Curve {
	case "linear":
		cfg.Curves = []configuration.CurveConfig{lin}
	case "pid":
		cfg.Curves = []configuration.CurveConfig{pid}
	case "fn-lin-pid":
		cfg.Curves = []configuration.CurveConfig{lin, pid, {ID: "top", Function: &configuration.FunctionCurveConfig{Type: configuration.FunctionMaximum, Curves: []string{"lin", "pid"}}}}
	default:
		cfg.Curves = []configuration.CurveConfig{lin2, pid,
			{ID: "inner", Function: &configuration.FunctionCurveConfig{Type: configuration.FunctionAverage, Curves: []string{"pid"}}},
			{ID: "top", Function: &configuration.FunctionCurveConfig{Type: configuration.FunctionSum, Curves: []string{"inner", "lin2"}}}}
	}
	top := cfg.Curves[len(cfg.Curves)-1].ID
	// ---- fan
	pm := identityMap()
	fanCfg := configuration.FanConfig{ID: "fan1", Curve: "probe", NeverStop: sc.NeverStop, PwmMap: &pm, MinPwm: ip(20), MaxPwm: ip(230)}
	direct := configuration.ControlAlgorithmConfig{Direct: &configuration.DirectControlAlgorithmConfig{}}
	fanCfg.ControlAlgorithm = &direct
	rpmLaw := func(pwm int) int { return 300 + 10*pwm }
	switch sc.Fan {
	case "hwmon":
		chip := filepath.Join(tree, "hwmon0")
		os.MkdirAll(chip, 0755)
		os.WriteFile(filepath.Join(chip, "name"), []byte("nct6798\n"), 0644)
		os.WriteFile(filepath.Join(chip, "verif_bus"), []byte("1 0 0x290\n"), 0644)
		for _, f := range []string{"fan2_input", "pwm2", "pwm2_enable"} {
			os.WriteFile(filepath.Join(chip, f), []byte("0\n"), 0644)
		}
		r.pwm = sim.NewDev("pwm2", r.origPwm)
		r.enable = sim.NewDev("pwm2_enable", r.origMode)
		r.rpm = sim.NewDev("fan2_input", 0)
		reg(r.pwm, filepath.Join(chip, "pwm2"))
		reg(r.enable, filepath.Join(chip, "pwm2_enable"))
		reg(r.rpm, filepath.Join(chip, "fan2_input"))
		r.hasMode = true
		fanCfg.HwMon = &configuration.HwMonFanConfig{Platform: "nct6798", RpmChannel: 2}
	case "file":
		pp, rp := filepath.Join(dir, "fpwm"), filepath.Join(dir, "frpm")
		r.pwm = sim.NewDev(pp, r.origPwm)
		r.rpm = sim.NewDev(rp, 0)
		r.enable = sim.NewDev("none", 1)
		reg(r.pwm, pp)
		reg(r.rpm, rp)
		fanCfg.File = &configuration.FileFanConfig{Path: pp, RpmPath: rp}
	default:
		fd := filepath.Join(dir, "fan")
		os.MkdirAll(fd, 0755)
		r.fanCmd = &cmdState{fd}
		r.fanCmd.set("pwm", strconv.Itoa(r.origPwm))
		for _, m := range []string{"setmode", "getmode", "rpmmode"} {
			r.fanCmd.set(m, "ok")
		}
		set, get, rpm := filepath.Join(dir, "set.sh"), filepath.Join(dir, "get.sh"), filepath.Join(dir, "rpm.sh")
		writeScript(set, "m=$(cat "+fd+"/setmode)\n[ \"$m\" = refuse ] && exit 1\n[ \"$m\" = ignore ] && exit 0\necho \"$1\" > "+fd+"/pwm\n")
		writeScript(get, "m=$(cat "+fd+"/getmode)\n[ \"$m\" = io ] && exit 1\n[ \"$m\" = garbage ] && { echo n/a; exit 0; }\n[ \"$m\" = empty ] && exit 0\n[ \"$m\" = blank ] && { echo ' '; exit 0; }\n[ \"$m\" = nan ] && { echo nan; exit 0; }\n[ \"$m\" = range ] && { echo 65535; exit 0; }\ncat "+fd+"/pwm\n")
		writeScript(rpm, "m=$(cat "+fd+"/rpmmode)\n[ \"$m\" = io ] && exit 1\n[ \"$m\" = garbage ] && { echo n/a; exit 0; }\n[ \"$m\" = empty ] && exit 0\n[ \"$m\" = blank ] && { echo; exit 0; }\n[ \"$m\" = nan ] && { echo inf; exit 0; }\n[ \"$m\" = range ] && { echo -1; exit 0; }\necho $(( 300 + 10 * $(cat "+fd+"/pwm) ))\n")
		r.scripts["pwmWrite"], r.scripts["pwmRead"], r.scripts["rpmRead"] = set, get, rpm
		fanCfg.Cmd = &configuration.CmdFanConfig{
			SetPwm: &configuration.ExecConfig{Exec: set, Args: []string{"%pwm%"}},
			GetPwm: &configuration.ExecConfig{Exec: get}, GetRpm: &configuration.ExecConfig{Exec: rpm}}
	}
	if r.rpm != nil {
		pwmDev := r.pwm
		r.rpm.ReadFn = func() int { return rpmLaw(pwmDev.Get()) }
	}
	if c09FanCfgHook != nil {
		c09FanCfgHook(&fanCfg)
	}
	cfg.Fans = []configuration.FanConfig{fanCfg}
	freshPrometheus()
	fanMap, err := internal.InitializeObjects()
	if err != nil {
		return r, fmt.Errorf("InitializeObjects: %w", err)
	}
	for _, f := range fanMap {
		r.fan = f
	}
	inner, ok := curves.GetSpeedCurve(top)
	if !ok {
		return r, fmt.Errorf("curve %s not registered", top)
	}
	r.probe = &probeCurve{inner: inner}
	curves.RegisterSpeedCurve(r.probe)
	return r, nil
}

func (r *c09Rig) close() {
	sim.Unregister(r.paths...)
	os.RemoveAll(r.dir)
}

func (r *c09Rig) setTemp(v int) {
	if r.temp != nil {
		r.temp.Set(v)
	}
	r.lastTemp = v // script based sensors: apply() writes the state file
}

func (r *c09Rig) pwmNow() int {
	if r.pwm != nil {
		return r.pwm.Get()
	}
	v, _ := strconv.Atoi(trimNl(r.fanCmd.get("pwm")))
	return v
}

func trimNl(s string) string {
	for len(s) > 0 && (s[len(s)-1] == '\n' || s[len(s)-1] == ' ') {
		s = s[:len(s)-1]
	}
	return s
}

var readKinds = map[string]int{"": sim.ReadOK, "io": sim.ReadEIO, "garbage": sim.ReadGarbage, "empty": sim.ReadEmpty,
	"blank": sim.ReadBlank, "nan": sim.ReadNaN, "range": sim.ReadRange,
	"nostart": sim.ReadEACCES} // virtual devices have no executable: the closest thing is a permission error
var writeKinds = map[string]int{"": sim.WriteOK, "refuse": sim.WriteRefuse, "ignore": sim.WriteIgnore, "nostart": sim.WriteRefuse}

// apply puts the fault modes for cycle k in force.
func (r *c09Rig) apply(faults []c09Fault, k int) (active map[string]string) {
	active = map[string]string{}
	for _, f := range faults {
		if k >= f.From && (f.Len == 0 || k < f.From+f.Len) {
			active[f.Comp] = f.Kind
		}
	}
	// sensor
	if r.temp != nil {
		r.temp.SetReadMode(readKinds[active["sensorRead"]])
	} else {
		switch active["sensorRead"] {
		case "io":
			r.sensCmd.set("code", "1")
			r.sensCmd.set("mode", "x")
		case "garbage":
			r.sensCmd.set("val", "n/a\n")
			r.sensCmd.set("code", "0")
			r.sensCmd.set("mode", "x")
		case "empty":
			r.sensCmd.set("val", "")
			r.sensCmd.set("code", "0")
			r.sensCmd.set("mode", "x")
		case "blank":
			r.sensCmd.set("val", " \n")
			r.sensCmd.set("code", "0")
			r.sensCmd.set("mode", "x")
		case "nan":
			r.sensCmd.set("val", "nan\n")
			r.sensCmd.set("code", "0")
			r.sensCmd.set("mode", "x")
		case "range":
			r.sensCmd.set("val", "1e30\n")
			r.sensCmd.set("code", "0")
			r.sensCmd.set("mode", "x")
		case "nostart":
			r.sensCmd.set("mode", "x")
		default:
			r.sensCmd.set("code", "0")
			r.sensCmd.set("mode", "")
			r.sensCmd.set("val", strconv.Itoa(r.lastTemp)+"\n")
		}
	}
	if r.pwm != nil {
		r.pwm.SetReadMode(readKinds[active["pwmRead"]])
		r.pwm.SetWriteMode(writeKinds[active["pwmWrite"]])
		r.rpm.SetReadMode(readKinds[active["rpmRead"]])
		r.enable.SetWriteMode(writeKinds[active["modeWrite"]])
	} else {
		or := func(s string) string {
			if s == "" {
				return "ok"
			}
			return s
		}
		r.fanCmd.set("getmode", or(active["pwmRead"]))
		r.fanCmd.set("setmode", or(active["pwmWrite"]))
		r.fanCmd.set("rpmmode", or(active["rpmRead"]))
	}
	// "nostart": the command cannot be started at all for the duration of the fault (no execute bit)
	for comp, script := range r.scripts {
		mode := os.FileMode(0755)
		if active[comp] == "nostart" {
			mode = 0644
		}
		_ = os.Chmod(script, mode)
	}
	return active
}

type c09Outcome struct {
	Evals      []int  `json:"evalsPerCycle"`
	Pwm        []int  `json:"pwmPerCycle"`
	FinalPwm   int    `json:"finalPwm"`
	FinalMode  int    `json:"finalMode"`
	RunErr     string `json:"runErr,omitempty"`
	Stopped    bool   `json:"regulationStopped"`
	Fired      bool   `json:"faultFired"`
	BuildError string `json:"buildError,omitempty"`
}

func execC09(t *testing.T, sc c09Scenario) (out c09Outcome) {
	r, err := buildC09(sc)
	if r != nil {
		defer r.close()
	}
	if err != nil {
		out.BuildError = err.Error()
		return
	}
	var pers persistence.Persistence
	if sc.RealDb {
		pers = persistence.NewPersistence(filepath.Join(r.dir, "db", "fan2go.db"))
		_ = pers.Init()
		twin, _ := fans.NewFan(configuration.FanConfig{ID: "fan1", HwMon: &configuration.HwMonFanConfig{}})
		d := map[int]float64{}
		for i := 0; i <= 255; i++ {
			d[i] = float64(300 + 10*i)
		}
		_ = twin.AttachFanRpmCurveData(&d)
		_ = pers.SaveFanPwmData(twin)
	} else {
		mem := sim.NewMemPersistence()
		d := map[int]float64{}
		for i := 0; i <= 255; i++ {
			d[i] = float64(300 + 10*i)
		}
		mem.Data["fan1"] = d
		pers = mem
	}
	tick := configuration.CurrentConfig.ControllerAdjustmentTickRate
	synctest.Test(t, func(st *testing.T) {
		controller.VerifResetInitMutex()
		ctx, cancel := context.WithCancel(context.Background())
		defer cancel()
		done := make(chan error, 2)
		for _, s := range sensors.SnapshotSensorMap() {
			mon := internal.NewSensorMonitor(s, configuration.CurrentConfig.TempSensorPollingRate)
			go func() { _ = mon.Run(ctx) }()
		}
		// faults with first cycle 0 are already in force while the controller starts up (original
		// PWM/mode reads, the first RPM polls before the first control cycle)
		r.apply(sc.Faults, 0)
		m := 0
		loop := sim.LoopSpec{Kind: "direct", MaxChange: m}.Build()
		ctl := controller.NewFanController(pers, r.fan, loop, tick)
		go func() { done <- ctl.Run(ctx) }()
		// first tick fires 2 s + 2 * tempPoll + 1 s + tick after the start
		start := 2*time.Second + 2*configuration.CurrentConfig.TempSensorPollingRate + time.Second
		time.Sleep(start + tick/2 + 3*time.Microsecond)
		synctest.Wait()
		ended := false
		readsBefore := func(d *sim.Dev) int {
			if d == nil {
				return 0
			}
			return d.Reads()
		}
		for k := 1; k <= c09Cycles; k++ {
			r.setTemp(30000 + 1700*k)
			active := r.apply(sc.Faults, k)
			e0 := r.probe.evals()
			tr, pr, rr := readsBefore(r.temp), readsBefore(r.pwm), readsBefore(r.rpm)
			var pw, mw int
			if r.pwm != nil {
				pw, mw = r.pwm.NumWrites(), r.enable.NumWrites()
			}
			time.Sleep(tick)
			synctest.Wait()
			out.Evals = append(out.Evals, r.probe.evals()-e0)
			out.Pwm = append(out.Pwm, r.pwmNow())
			// did the fault fire (its device was accessed while it was in force)?
			for comp := range active {
				switch comp {
				case "sensorRead":
					out.Fired = out.Fired || r.temp == nil || r.temp.Reads() > tr
				case "pwmRead":
					out.Fired = out.Fired || r.pwm == nil || r.pwm.Reads() > pr
				case "rpmRead":
					out.Fired = out.Fired || r.rpm == nil || r.rpm.Reads() > rr
				case "pwmWrite":
					out.Fired = out.Fired || r.pwm == nil || r.pwm.NumWrites() > pw
				case "modeWrite":
					out.Fired = out.Fired || (r.pwm != nil && r.enable.NumWrites() > mw)
				}
			}
			select {
			case err := <-done:
				ended = true
				if err != nil {
					out.RunErr = err.Error()
				}
			default:
			}
			if ended {
				break
			}
		}
		n := len(out.Evals)
		out.Stopped = ended || (n >= 3 && out.Evals[n-1] == 0 && out.Evals[n-2] == 0 && out.Evals[n-3] == 0)
		out.FinalPwm = r.pwmNow()
		if r.pwm != nil {
			out.FinalMode = r.enable.Get()
		}
		cancel()
		if !ended {
			select {
			case err := <-done:
				if err != nil {
					out.RunErr = err.Error()
				}
			case <-time.After(10 * time.Minute):
				out.RunErr = "Run did not return after cancellation"
			}
		}
		synctest.Wait()
	})
	return out
}

func judgeC09(t *testing.T, sc c09Scenario) verdict {
	sim.CaseFile("C09", "TestC09", sc)
	out := execC09(t, sc)
	var vs []sim.Violation
	if out.BuildError != "" {
		return verdict{vs: []sim.Violation{{Key: "harness", Msg: out.BuildError}}}
	}
	if out.RunErr != "" {
		vs = append(vs, sim.Violation{Key: "run-returned-error", Msg: fmt.Sprintf("%+v: controller.Run returned %q (the daemon turns that into a panic)", sc.Faults, out.RunErr)})
	}
	pwmWriteForever := false
	transient := true
	statelessOnly := sc.Curve == "linear"
	for _, f := range sc.Faults {
		if f.Len == 0 || f.From+f.Len > c09Cycles-4 {
			transient = false
		}
		if f.Comp == "pwmWrite" && f.Len == 0 {
			pwmWriteForever = true
		}
		if f.Comp == "rpmRead" {
			statelessOnly = false
		}
		if f.Comp == "sensorRead" && f.Kind == "range" {
			// a well-formed, absurdly large reading is a reading: it enters the moving average (C08)
			// and legitimately keeps the fan faster for a while - no "recovers to the twin" claim
			statelessOnly = false
		}
	}
	if out.Stopped {
		// handed back: original mode (not manual) or full speed
		ok := (sc.Fan == "hwmon" && out.FinalMode == 2) || out.FinalPwm == 255
		// the cycle in which regulation ended is the last one that still evaluated the curve; if the
		// driver accepted no PWM write in that cycle (and the mode could not be restored either),
		// no implementation could have handed the fan back - nothing is demanded then (as in C03)
		stopCycle := 0
		for i, e := range out.Evals {
			if e > 0 {
				stopCycle = i + 1
			}
		}
		activeAt := func(comp string) bool {
			for _, f := range sc.Faults {
				if f.Comp == comp && stopCycle >= f.From && (f.Len == 0 || stopCycle < f.From+f.Len) {
					return true
				}
			}
			return false
		}
		if activeAt("pwmWrite") && (sc.Fan != "hwmon" || activeAt("modeWrite")) {
			pwmWriteForever = true
		}
		if !ok && !pwmWriteForever {
			vs = append(vs, sim.Violation{Key: "stopped-without-restoring", Msg: fmt.Sprintf("%+v: regulation stopped (evaluations per cycle %v) with the fan in mode %d at PWM %d", sc.Faults, out.Evals, out.FinalMode, out.FinalPwm)})
		}
	} else if transient && statelessOnly && len(sc.Faults) > 0 {
		twin := sc
		twin.Faults = nil
		tw := execC09(t, twin)
		if tw.FinalPwm != out.FinalPwm {
			vs = append(vs, sim.Violation{Key: "does-not-recover-after-transient-fault", Msg: fmt.Sprintf("%+v: fan ends at PWM %d, undisturbed twin at %d", sc.Faults, out.FinalPwm, tw.FinalPwm)})
		}
	}
	labels := []string{"fan:" + sc.Fan, "sensor:" + sc.Sensor, "curve:" + sc.Curve, fmt.Sprintf("faults:%d", len(sc.Faults))}
	if out.Stopped {
		labels = append(labels, "handed-back")
	}
	return verdict{vs: vs, nontrivial: out.Fired, labels: labels, outcome: out}
}

var (
	c09Fans    = []string{"hwmon", "file", "cmd"}
	c09Sensors = []string{"hwmon", "file", "cmd"}
	c09Curves  = []string{"linear", "pid", "fn-lin-pid", "fn-fn-pid"}
)

func c09SingleFaults(starts []int, lens []int) []c09Fault {
	return c09Faults(starts, lens, []string{"io", "garbage", "empty", "blank", "nan", "range", "nostart"}, []string{"refuse", "ignore", "nostart"})
}

func c09Faults(starts []int, lens []int, readKinds, writeKinds []string) []c09Fault {
	var out []c09Fault
	for _, comp := range []string{"sensorRead", "rpmRead", "pwmRead", "pwmWrite", "modeWrite"} {
		kinds := readKinds
		if comp == "pwmWrite" {
			kinds = writeKinds
		} else if comp == "modeWrite" {
			kinds = []string{"refuse", "ignore"}
		}
		for _, k := range kinds {
			for _, s := range starts {
				for _, l := range lens {
					out = append(out, c09Fault{Comp: comp, Kind: k, From: s, Len: l})
				}
			}
		}
	}
	return out
}

func TestC09(t *testing.T) {
	st := sim.NewStats("C09")
	defer st.Flush()
	run := func(sc c09Scenario) {
		v := judgeC09(t, sc)
		st.CaseH(sim.Hash(sc), map[string]any{"scenario": sc, "outcome": v.outcome}, v.nontrivial, v.labels...)
		if fail := st.Judge(v.vs); len(fail) > 0 {
			st.SaveReplay("TestC09", sc, fail)
			t.Fatalf("C09: %v", fail)
		}
	}
	if p := os.Getenv("VERIF_REPLAY"); p != "" {
		var sc c09Scenario
		if err := sim.LoadReplay(p, &sc); err != nil {
			t.Fatalf("cannot load replay: %v", err)
		}
		v := judgeC09(t, sc)
		fmt.Printf("outcome: %+v\n", v.outcome)
		for _, x := range v.vs {
			fmt.Println("  violation", x)
		}
		if len(st.Judge(v.vs)) > 0 {
			t.Fatalf("%d violation(s)", len(v.vs))
		}
		fmt.Println("REPLAY-OK")
		return
	}
	files, _ := filepath.Glob(filepath.Join(regressDir("C09"), "*.json"))
	for _, f := range files {
		var sc c09Scenario
		if sim.LoadReplay(f, &sc) == nil {
			run(sc)
		}
	}
	shard, shards := envInt("VERIF_SHARD", 0), envInt("VERIF_SHARDS", 1)
	seed := envInt("VERIF_SEED", 1)
	thorough := os.Getenv("VERIF_TIER") == "thorough"
	singles := c09SingleFaults([]int{0, 1, 2, 7, 24}, []int{1, 3, 0})
	idx := 0
	for fi, fan := range c09Fans {
		for si, sens := range c09Sensors {
			for ci, curve := range c09Curves {
				combo := fi*12 + si*4 + ci
				// quick: all single faults on a rotating third of the combinations
				// (script based combinations are slow: only a sixth of them in quick)
				if !thorough && (combo+seed)%3 != 0 {
					continue
				}
				scripted := fan == "cmd" || sens == "cmd"
				for fj, f := range singles {
					idx++
					if idx%shards != shard {
						continue
					}
					if !thorough && scripted && (fj+seed)%6 != 0 {
						continue
					}
					run(c09Scenario{Fan: fan, Sensor: sens, Curve: curve, NeverStop: (fj+combo)%2 == 0, RealDb: (fj+combo)%7 == 0, Faults: []c09Fault{f}})
				}
			}
		}
	}
	// pairs of faults
	// pairs: one representative per fault family (failing read, unparsable content, absurd value | refused, ignored write)
	pairBase := c09Faults([]int{0, 2, 7}, []int{1, 0}, []string{"io", "blank", "range"}, []string{"refuse", "ignore"})
	x := uint64(seed)
	nPairs := 300
	if thorough {
		nPairs = 0 // enumerated below
	}
	for i := 0; i < nPairs; i++ {
		x = lcg(x)
		a := pairBase[int(x>>33)%len(pairBase)]
		x = lcg(x)
		b := pairBase[int(x>>33)%len(pairBase)]
		x = lcg(x)
		combo := int(x>>33) % 24 // virtual-device combinations only in the quick tier
		if i%shards != shard {
			continue
		}
		run(c09Scenario{Fan: c09Fans[combo/12%2], Sensor: c09Sensors[combo/4%3%2], Curve: c09Curves[combo%4], NeverStop: i%2 == 0, Faults: []c09Fault{a, b}})
	}
	if thorough {
		for fi, fan := range c09Fans {
			for si, sens := range c09Sensors {
				for ci, curve := range c09Curves {
					if fan == "cmd" || sens == "cmd" {
						if (fi+si+ci+seed)%4 != 0 {
							continue // script based combinations: a rotating quarter of the pair space
						}
					}
					for ai, a := range pairBase {
						for bi := ai + 1; bi < len(pairBase); bi++ {
							idx++
							if idx%shards != shard {
								continue
							}
							run(c09Scenario{Fan: fan, Sensor: sens, Curve: curve, NeverStop: (ai+bi)%2 == 0, Faults: []c09Fault{a, pairBase[bi]}})
						}
					}
				}
			}
		}
	}
}
