package props

// C18 - only root-controlled executables are ever run.
//
// Exhaustive over owner {0,1000,54321 (no passwd entry)} x group {0,1000,54321} x 512 modes x {direct path, symlink}: a fresh
// /bin/sh script that appends to a marker file is offered to util.SafeCmdExecution, then its
// attributes are changed and it is offered again. Reference predicate on the resolved file:
//   allowed <=> uid == 0 && !(gid != 0 && mode&0o020 != 0) && mode&0o002 == 0
// forbidden => error and the marker did not grow; allowed and executable => marker grew by one and
// the output is returned; allowed without any x bit => marker did not grow.
// The same predicate is checked on the configuration file through configuration.Validate.

import (
	"fmt"
	"os"
	"path/filepath"
	"strings"
	"testing"
	"time"

	"github.com/markusressel/fan2go/internal/configuration"
	"github.com/markusressel/fan2go/internal/fans"
	"github.com/markusressel/fan2go/internal/sensors"
	"github.com/markusressel/fan2go/internal/util"
	"github.com/markusressel/fan2go/verifharness/sim"
)

type c18Point struct {
	Uid     int  `json:"uid"`
	Gid     int  `json:"gid"`
	Mode    int  `json:"mode"`
	Symlink bool `json:"symlink"`
	LinkUid int  `json:"linkUid"`
	// attributes for the second execution
	Uid2  int    `json:"uid2"`
	Gid2  int    `json:"gid2"`
	Mode2 int    `json:"mode2"`
	Via   string `json:"via"` // exec | sensor | fan
	// Retarget (symlink only): before the second execution the link is pointed at a second file carrying
	// the second attributes, while the first file stays where and as it was
	Retarget bool `json:"retarget,omitempty"`
}

func c18Allowed(uid, gid, mode int) bool {
	return uid == 0 && !(gid != 0 && mode&0o020 != 0) && mode&0o002 == 0
}

func markerSize(p string) int64 {
	st, err := os.Stat(p)
	if err != nil {
		return 0
	}
	return st.Size()
}

// c18Call runs the script through the chosen entry point, recovering panics (how a start failure is
// reported is C19's subject; here only "nothing was executed" matters).
func c18Call(via, path string) (out string, err error, panicked string) {
	defer func() {
		if r := recover(); r != nil {
			panicked = fmt.Sprint(r)
		}
	}()
	switch via {
	case "sensor":
		s, _ := sensors.NewSensor(configuration.SensorConfig{ID: "c18s", Cmd: &configuration.CmdSensorConfig{Exec: path}})
		v, e := s.GetValue()
		return fmt.Sprint(v), e, ""
	case "fan":
		f, _ := fans.NewFan(configuration.FanConfig{ID: "c18f", Cmd: &configuration.CmdFanConfig{SetPwm: &configuration.ExecConfig{Exec: path, Args: []string{"%pwm%"}}}})
		e := f.SetPwm(42)
		return "42", e, ""
	default:
		o, e := util.SafeCmdExecution(path, []string{}, 5*time.Second)
		return o, e, ""
	}
}

func c18Run(dir string, p c18Point) (vs []sim.Violation, flips bool) {
	script := filepath.Join(dir, "script.sh")
	link := filepath.Join(dir, "link.sh")
	marker := filepath.Join(dir, "marker")
	os.Remove(script)
	os.Remove(link)
	os.Remove(marker)
	body := "#!/bin/sh\necho x >> " + marker + "\necho 42\n"
	if err := os.WriteFile(script, []byte(body), 0o700); err != nil {
		return []sim.Violation{{Key: "harness", Msg: err.Error()}}, false
	}
	path := script
	if p.Symlink {
		if err := os.Symlink(script, link); err != nil {
			return []sim.Violation{{Key: "harness", Msg: err.Error()}}, false
		}
		_ = os.Lchown(link, p.LinkUid, p.LinkUid)
		path = link
	}
	set := func(uid, gid, mode int) {
		_ = os.Chown(script, uid, gid)
		_ = os.Chmod(script, os.FileMode(mode))
	}
	judge := func(call int, uid, gid, mode int) {
		before := markerSize(marker)
		out, err, pan := c18Call(p.Via, path)
		grew := markerSize(marker) - before
		allowed := c18Allowed(uid, gid, mode)
		exe := mode&0o111 != 0
		desc := fmt.Sprintf("call %d via %s: uid %d gid %d mode %04o symlink %v", call, p.Via, uid, gid, mode, p.Symlink)
		switch {
		case !allowed:
			if grew != 0 {
				vs = append(vs, sim.Violation{Key: "forbidden-file-executed", Msg: desc + ": the script ran"})
			}
			if err == nil && pan == "" {
				vs = append(vs, sim.Violation{Key: "forbidden-file-no-error", Msg: desc + ": no error returned"})
			}
		case allowed && exe:
			if grew != 2 { // "x\n"
				vs = append(vs, sim.Violation{Key: "allowed-file-not-executed", Msg: fmt.Sprintf("%s: marker grew by %d bytes, err %v panic %q", desc, grew, err, pan)})
			} else if err != nil || strings.TrimSpace(out) != "42" && p.Via == "exec" {
				vs = append(vs, sim.Violation{Key: "allowed-file-output-lost", Msg: fmt.Sprintf("%s: output %q err %v", desc, out, err)})
			}
		default: // allowed but not executable: nothing may run
			if grew != 0 {
				vs = append(vs, sim.Violation{Key: "non-executable-file-executed", Msg: desc})
			}
		}
	}
	set(p.Uid, p.Gid, p.Mode)
	judge(1, p.Uid, p.Gid, p.Mode)
	if p.Retarget && p.Symlink {
		script2 := filepath.Join(dir, "script2.sh")
		os.Remove(script2)
		defer os.Remove(script2)
		if err := os.WriteFile(script2, []byte(body), 0o700); err != nil {
			return []sim.Violation{{Key: "harness", Msg: err.Error()}}, false
		}
		_ = os.Chown(script2, p.Uid2, p.Gid2)
		_ = os.Chmod(script2, os.FileMode(p.Mode2))
		os.Remove(link)
		if err := os.Symlink(script2, link); err != nil {
			return []sim.Violation{{Key: "harness", Msg: err.Error()}}, false
		}
		_ = os.Lchown(link, p.LinkUid, p.LinkUid)
	} else {
		set(p.Uid2, p.Gid2, p.Mode2)
	}
	judge(2, p.Uid2, p.Gid2, p.Mode2)
	return vs, c18Allowed(p.Uid, p.Gid, p.Mode) != c18Allowed(p.Uid2, p.Gid2, p.Mode2)
}

var c18Ids = []int{0, 1000, 54321}

// c18Other flips an owner id to the other side of "is root".
func c18Other(id int, r uint64) int {
	if id != 0 {
		return 0
	}
	return c18Ids[1+int(r%2)]
}

// c18SelfModifying: an allowed script that makes itself unsafe while it runs (and fails, or not). Every
// execution logs the owner / group / mode it found itself in; none may start in a forbidden state,
// whatever fan2go does after the first run (retries, fallbacks), and a later call must be refused.
func c18SelfModifying(dir, change string, exit int, via string, symlink bool) (vs []sim.Violation) {
	script := filepath.Join(dir, "selfmod.sh")
	link := filepath.Join(dir, "selfmod-link.sh")
	marker := filepath.Join(dir, "selfmod.marker")
	os.Remove(script)
	os.Remove(link)
	os.Remove(marker)
	body := "#!/bin/sh\nstat -L -c '%u %g %a' \"$0\" >> " + marker + "\n" + change + "\necho 42\nexit " + fmt.Sprint(exit) + "\n"
	if err := os.WriteFile(script, []byte(body), 0o755); err != nil {
		return []sim.Violation{{Key: "harness", Msg: err.Error()}}
	}
	_ = os.Chown(script, 0, 0)
	_ = os.Chmod(script, 0o755)
	path := script
	if symlink {
		_ = os.Symlink(script, link)
		path = link
	}
	desc := fmt.Sprintf("self-modifying script (%s, exit %d) via %s symlink %v", change, exit, via, symlink)
	for call := 1; call <= 2; call++ {
		_, err, pan := c18Call(via, path)
		b, _ := os.ReadFile(marker)
		lines := strings.Fields(strings.ReplaceAll(strings.TrimSpace(string(b)), " ", ":"))
		for i, l := range lines {
			var uid, gid, mode int
			if _, e := fmt.Sscanf(l, "%d:%d:%o", &uid, &gid, &mode); e != nil {
				return append(vs, sim.Violation{Key: "harness", Msg: "marker line " + l})
			}
			if !c18Allowed(uid, gid, mode) {
				return append(vs, sim.Violation{Key: "forbidden-file-executed", Msg: fmt.Sprintf("%s: execution %d (call %d) started while the file was uid %d gid %d mode %04o", desc, i+1, call, uid, gid, mode)})
			}
		}
		if call == 1 && len(lines) == 0 {
			return append(vs, sim.Violation{Key: "allowed-file-not-executed", Msg: desc + ": first call did not run the script"})
		}
		if call == 2 && err == nil && pan == "" {
			vs = append(vs, sim.Violation{Key: "forbidden-file-no-error", Msg: desc + ": second call (file now unsafe) returned no error"})
		}
	}
	return vs
}

func lcg(x uint64) uint64 { return x*6364136223846793005 + 1442695040888963407 }

func TestC18(t *testing.T) {
	st := sim.NewStats("C18")
	defer st.Flush()
	if os.Geteuid() != 0 {
		t.Skip("needs root to change file ownership")
	}
	dir, err := os.MkdirTemp(sim.WorkDir(), "c18-")
	if err != nil {
		t.Fatal(err)
	}
	defer os.RemoveAll(dir)
	if p := os.Getenv("VERIF_REPLAY"); p != "" {
		var pt c18Point
		if err := sim.LoadReplay(p, &pt); err != nil {
			t.Fatalf("cannot load replay: %v", err)
		}
		vs, _ := c18Run(dir, pt)
		for _, v := range vs {
			fmt.Println("  violation", v)
		}
		if len(st.Judge(vs)) > 0 {
			t.Fatalf("%d violation(s)", len(vs))
		}
		fmt.Println("REPLAY-OK")
		return
	}
	shard, shards := envInt("VERIF_SHARD", 0), envInt("VERIF_SHARDS", 1)
	seed := uint64(envInt("VERIF_SEED", 1))
	idx := 0
	flipsN := 0
	// owners: root, an ordinary account, and an id without any passwd / group entry
	for _, uid := range c18Ids {
		for _, gid := range c18Ids {
			for mode := 0; mode < 0o1000; mode++ {
				for _, sym := range []bool{false, true} {
					idx++
					if idx%shards != shard {
						continue
					}
					x := lcg(lcg(seed*1000003 + uint64(idx)))
					p := c18Point{Uid: uid, Gid: gid, Mode: mode, Symlink: sym, LinkUid: int(x>>20) % 2 * 1000, Via: "exec"}
					// second execution: flip one attribute towards the other verdict half of the time, else random
					p.Uid2, p.Gid2, p.Mode2 = uid, gid, mode
					switch (x >> 33) % 5 {
					case 0:
						p.Uid2 = c18Other(uid, x>>45)
					case 1:
						p.Gid2 = c18Other(gid, x>>45)
					case 2:
						p.Mode2 = mode ^ 0o002
					case 3:
						p.Mode2 = mode ^ 0o020
					default:
						p.Uid2, p.Gid2, p.Mode2 = c18Ids[int(x>>40)%3], c18Ids[int(x>>43)%3], int(x>>46)%0o1000
					}
					p.Retarget = sym && (x>>55)%3 == 0
					if (x>>50)%16 == 0 {
						p.Via = "sensor"
					} else if (x>>50)%16 == 1 {
						p.Via = "fan"
					}
					vs, flips := c18Run(dir, p)
					if flips {
						flipsN++
					}
					lbl := []string{"via:" + p.Via}
					if p.Retarget {
						lbl = append(lbl, "link-retargeted")
					}
					st.CaseH(fmt.Sprintf("%d-%d-%o-%v", uid, gid, mode, sym), p, true, lbl...)
					if fail := st.Judge(vs); len(fail) > 0 {
						st.SaveReplay("TestC18", p, fail)
						t.Fatalf("C18: %v", fail)
					}
				}
			}
		}
	}
	st.Add("verdict_changes_between_calls", int64(flipsN))
	if shard == 0 {
		for _, change := range []string{`chmod o+w "$0"`, `chgrp 1000 "$0"; chmod g+w "$0"`, `chown 1000 "$0"`, `chown 54321 "$0"`} {
			for _, exit := range []int{0, 1} {
				for _, via := range []string{"exec", "sensor", "fan"} {
					for _, sym := range []bool{false, true} {
						vs := c18SelfModifying(dir, change, exit, via, sym)
						st.CaseH(fmt.Sprintf("selfmod-%s-%d-%s-%v", change, exit, via, sym), map[string]any{"change": change, "exit": exit, "via": via, "symlink": sym}, true, "self-modifying")
						if fail := st.Judge(vs); len(fail) > 0 {
							st.SaveReplay("TestC18", c18Point{Via: "selfmod:" + change, Mode: exit, Symlink: sym}, fail)
							t.Fatalf("C18: %v", fail)
						}
					}
				}
			}
		}
	}
	// the configuration file: the same predicate whenever a cmd sensor or fan is declared
	cfgPath := filepath.Join(dir, "fan2go.yaml")
	_ = os.WriteFile(cfgPath, []byte("# c18\n"), 0o600)
	// variant: 0 no cmd entry; 1/2 cmd sensor first/last; 3/4 cmd fan first/last
	mk := func(variant int) {
		fileSensor := configuration.SensorConfig{ID: "s", File: &configuration.FileSensorConfig{Path: "/x"}}
		fileSensor2 := configuration.SensorConfig{ID: "s2", File: &configuration.FileSensorConfig{Path: "/x2"}}
		cmdSensor := configuration.SensorConfig{ID: "cs", Cmd: &configuration.CmdSensorConfig{Exec: "/bin/true"}}
		fileFan := configuration.FanConfig{ID: "f", Curve: "c", File: &configuration.FileFanConfig{Path: "/y"}}
		fileFan2 := configuration.FanConfig{ID: "f2", Curve: "c", File: &configuration.FileFanConfig{Path: "/y2"}}
		cmdFan := configuration.FanConfig{ID: "cf", Curve: "c", Cmd: &configuration.CmdFanConfig{
			SetPwm: &configuration.ExecConfig{Exec: "/bin/true"}, GetPwm: &configuration.ExecConfig{Exec: "/bin/true"}}}
		c := configuration.Configuration{
			Sensors: []configuration.SensorConfig{fileSensor, fileSensor2},
			Curves:  []configuration.CurveConfig{{ID: "c", Linear: &configuration.LinearCurveConfig{Sensor: "s", Min: 1, Max: 2}}},
			Fans:    []configuration.FanConfig{fileFan, fileFan2},
		}
		switch variant {
		case 1:
			c.Sensors = []configuration.SensorConfig{cmdSensor, fileSensor, fileSensor2}
		case 2:
			c.Sensors = []configuration.SensorConfig{fileSensor, fileSensor2, cmdSensor}
		case 3:
			c.Fans = []configuration.FanConfig{cmdFan, fileFan, fileFan2}
		case 4:
			c.Fans = []configuration.FanConfig{fileFan, fileFan2, cmdFan}
		}
		configuration.CurrentConfig = c
	}
	n := 0
	for _, uid := range c18Ids {
		for _, gid := range c18Ids {
			for mode := 0; mode < 0o1000; mode++ {
				n++
				if n%shards != shard {
					continue
				}
				_ = os.Chown(cfgPath, uid, gid)
				_ = os.Chmod(cfgPath, os.FileMode(mode))
				for variant := 0; variant < 5; variant++ {
					mk(variant)
					err := configuration.Validate(cfgPath)
					want := variant == 0 || c18Allowed(uid, gid, mode)
					st.CaseH(fmt.Sprintf("cfg-%d-%d-%o-%d", uid, gid, mode, variant), nil, true, "config-file")
					if (err == nil) != want {
						v := []sim.Violation{{Key: "config-file-permission-verdict", Msg: fmt.Sprintf("config uid %d gid %d mode %04o, variant %d (0 none, 1/2 cmd sensor first/last, 3/4 cmd fan first/last): Validate returned %v", uid, gid, mode, variant, err)}}
						if fail := st.Judge(v); len(fail) > 0 {
							st.SaveReplay("TestC18", c18Point{Uid: uid, Gid: gid, Mode: mode, Via: "config"}, fail)
							t.Fatalf("C18: %v", fail)
						}
					}
				}
			}
		}
	}
	st.Exhaustive = true
}
