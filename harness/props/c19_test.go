package props

// C19 - external commands cannot hang or crash fan2go.  Real time, real processes.
//
// Oracle: the call returns (a panic is recovered and reported) within timeout + 1.5 s; success
// modes return a nil error and a text r with TrimSpace(r) == TrimSpace(raw) and len(r) <= len(raw);
// every failure mode returns a non-nil error and an empty text.

import (
	"fmt"
	"os"
	"path/filepath"
	"strings"
	"sync"
	"testing"
	"time"

	"github.com/markusressel/fan2go/internal/configuration"
	"github.com/markusressel/fan2go/internal/fans"
	"github.com/markusressel/fan2go/internal/sensors"
	"github.com/markusressel/fan2go/internal/util"
	"github.com/markusressel/fan2go/verifharness/sim"
	"pgregory.net/rapid"
)

type c19Scenario struct {
	Mode      string `json:"mode"`
	TimeoutMs int    `json:"timeoutMs"`
	Via       string `json:"via"` // exec | sensor | fanGetPwm | fanGetRpm | fanSetPwm
	Code      int    `json:"code,omitempty"`
	// Parallel >= 2: that many callers run the same executable at the same time (the RPM monitor, the
	// control loop and the statistics collectors do call one fan's / sensor's command concurrently);
	// every one of them has to come back within the bound
	Parallel int `json:"parallel,omitempty"`
}

var c19Success = []string{"ok-plain", "ok-empty", "ok-whitespace", "ok-big", "ok-nonnumeric", "ok-float"}
var c19Failure = []string{"exit-code", "exit-code-output", "exit-code-stderr", "self-kill", "not-executable", "bad-format", "dangling-interpreter",
	"vanishing", "sleep-past-deadline", "ignore-sigterm", "grandchild-holds-stdout", "grandchild-and-parent-sleep", "print-then-sleep", "missing-file",
	"path-through-regular-file", "symlink-loop", "name-too-long", "no-shebang-sleeps", "no-shebang-quick", "directory", "endless-output", "no-shebang-grandchild", "no-shebang-grandchild-sleeps"}

// commands that answer just inside their deadline with output no numeric backend can use: whether the
// (late, useless) answer or a timeout error comes back is the scheduler's choice and both are clean -
// but a caller that runs such a command a second time is back only after two timeouts
var c19Slow = []string{"slow-nonnumeric", "slow-empty", "slow-exit-code"}

func genC19(t *rapid.T) c19Scenario {
	sc := c19Scenario{TimeoutMs: rapid.SampledFrom([]int{200, 500, 1000, 2000}).Draw(t, "timeoutMs")}
	if k := rapid.IntRange(0, 9).Draw(t, "success"); k <= 1 {
		sc.Mode = rapid.SampledFrom(c19Success).Draw(t, "mode")
	} else if k == 2 {
		sc.Mode = rapid.SampledFrom(c19Slow).Draw(t, "mode")
	} else {
		sc.Mode = rapid.SampledFrom(c19Failure).Draw(t, "mode")
	}
	sc.Code = rapid.SampledFrom([]int{1, 2, 126, 127, 255}).Draw(t, "code")
	sc.Via = rapid.SampledFrom([]string{"exec", "exec", "exec", "exec", "sensor", "fanGetPwm", "fanGetRpm", "fanSetPwm"}).Draw(t, "via")
	if sc.Via != "exec" {
		sc.TimeoutMs = 2000 // fixed in the backends
	}
	if sc.Mode != "vanishing" && sc.Mode != "endless-output" && rapid.IntRange(0, 3).Draw(t, "parallel") == 0 {
		sc.Parallel = rapid.IntRange(2, 4).Draw(t, "callers")
	}
	return sc
}

// c19Script writes the executable for a mode; it returns the raw stdout a successful run prints.
func c19Script(dir string, sc c19Scenario) (path string, raw string, success bool) {
	path = filepath.Join(dir, "cmd.sh")
	os.Remove(path)
	long := fmt.Sprintf("%d", sc.TimeoutMs/1000+4)
	body := "#!/bin/sh\n"
	mode := os.FileMode(0o755)
	success = false
	switch sc.Mode {
	case "ok-plain":
		body += "echo 42\n"
		raw, success = "42\n", true
	case "ok-float":
		body += "echo 37.5\n"
		raw, success = "37.5\n", true
	case "ok-empty":
		raw, success = "", true
	case "ok-whitespace":
		body += "printf '\\n\\n  42 \\n\\n'\n"
		raw, success = "\n\n  42 \n\n", true
	case "ok-big":
		body += "head -c 1048576 /dev/zero | tr '\\0' 'a'\n"
		raw, success = strings.Repeat("a", 1048576), true
	case "ok-nonnumeric":
		body += "echo hello world\n"
		raw, success = "hello world\n", true
	case "exit-code":
		body += fmt.Sprintf("exit %d\n", sc.Code)
	case "exit-code-output":
		body += fmt.Sprintf("echo 17\nexit %d\n", sc.Code)
	case "exit-code-stderr":
		body += fmt.Sprintf("echo oops >&2\nexit %d\n", sc.Code)
	case "self-kill":
		body += "kill -9 $$\n"
	case "not-executable":
		body += "echo 42\n"
		mode = 0o644
	case "bad-format":
		body = "\x7fELF\x01\x02garbage\x00\x00\x00"
	case "dangling-interpreter":
		body = "#!/nonexistent/interpreter\necho 42\n"
	case "vanishing":
		body += "echo 42\n"
	case "missing-file":
		return filepath.Join(dir, "does-not-exist.sh"), "", false
	case "path-through-regular-file":
		_ = os.WriteFile(filepath.Join(dir, "plainfile"), []byte("x"), 0o644)
		return filepath.Join(dir, "plainfile", "cmd.sh"), "", false
	case "symlink-loop":
		_ = os.Remove(filepath.Join(dir, "loopA"))
		_ = os.Remove(filepath.Join(dir, "loopB"))
		_ = os.Symlink(filepath.Join(dir, "loopB"), filepath.Join(dir, "loopA"))
		_ = os.Symlink(filepath.Join(dir, "loopA"), filepath.Join(dir, "loopB"))
		return filepath.Join(dir, "loopA"), "", false
	case "name-too-long":
		return filepath.Join(dir, strings.Repeat("x", 300)), "", false
	case "directory":
		_ = os.MkdirAll(filepath.Join(dir, "adir"), 0o755)
		return filepath.Join(dir, "adir"), "", false
	case "no-shebang-sleeps":
		body = "sleep " + long + "\necho 42\n" // a text file without interpreter line: ENOEXEC
	case "no-shebang-quick":
		body = "echo 42\n"
	case "sleep-past-deadline":
		body += "sleep " + long + "\n"
	case "ignore-sigterm":
		body += "trap '' TERM INT HUP\nsleep " + long + "\n"
	case "grandchild-holds-stdout":
		body += "(sleep " + long + " &)\necho 1\nexit 0\n"
	case "grandchild-and-parent-sleep":
		body += "sleep " + long + " &\nsleep " + long + "\n"
	case "print-then-sleep":
		body += "echo 5\nsleep " + long + "\n"
	case "endless-output":
		body += "yes 1234567890\n" // writes as fast as it can until it is killed
	case "no-shebang-grandchild":
		body = "(sleep " + long + " &)\necho 1\nexit 0\n" // ENOEXEC, and what a shell would make of it lingers
	case "no-shebang-grandchild-sleeps":
		body = "sleep " + long + " &\nsleep " + long + "\n"
	case "slow-nonnumeric", "slow-empty", "slow-exit-code":
		body += fmt.Sprintf("sleep %d.%03d\n", (sc.TimeoutMs-100)/1000, (sc.TimeoutMs-100)%1000)
		switch sc.Mode {
		case "slow-nonnumeric":
			body += "echo hello world\n"
			raw = "hello world\n"
		case "slow-exit-code":
			body += fmt.Sprintf("echo not yet >&2\nexit %d\n", sc.Code)
		}
	}
	_ = os.WriteFile(path, []byte(body), mode)
	_ = os.Chmod(path, mode)
	return path, raw, success
}

type c19Result struct {
	Out     string
	Err     error
	Panic   string
	Elapsed time.Duration
}

func c19Call(sc c19Scenario, path string) (r c19Result) {
	t0 := time.Now()
	defer func() {
		if p := recover(); p != nil {
			r.Panic = fmt.Sprint(p)
		}
		r.Elapsed = time.Since(t0)
	}()
	ec := &configuration.ExecConfig{Exec: path, Args: []string{}}
	switch sc.Via {
	case "sensor":
		s, _ := sensors.NewSensor(configuration.SensorConfig{ID: "c19", Cmd: &configuration.CmdSensorConfig{Exec: path}})
		v, err := s.GetValue()
		r.Err = err
		if err == nil {
			r.Out = fmt.Sprint(v)
		}
	case "fanGetPwm":
		f, _ := fans.NewFan(configuration.FanConfig{ID: "c19", Cmd: &configuration.CmdFanConfig{SetPwm: ec, GetPwm: ec}})
		v, err := f.GetPwm()
		r.Err = err
		if err == nil {
			r.Out = fmt.Sprint(v)
		}
	case "fanGetRpm":
		f, _ := fans.NewFan(configuration.FanConfig{ID: "c19", Cmd: &configuration.CmdFanConfig{SetPwm: ec, GetPwm: ec, GetRpm: ec}})
		v, err := f.GetRpm()
		r.Err = err
		if err == nil {
			r.Out = fmt.Sprint(v)
		}
	case "fanSetPwm":
		f, _ := fans.NewFan(configuration.FanConfig{ID: "c19", Cmd: &configuration.CmdFanConfig{SetPwm: ec, GetPwm: ec}})
		r.Err = f.SetPwm(100)
	default:
		r.Out, r.Err = util.SafeCmdExecution(path, []string{}, time.Duration(sc.TimeoutMs)*time.Millisecond)
	}
	return r
}

const c19Margin = 1500 * time.Millisecond

func runC19(t *testing.T, sc c19Scenario) verdict {
	dir, err := os.MkdirTemp(sim.WorkDir(), "c19-")
	if err != nil {
		return verdict{vs: []sim.Violation{{Key: "harness", Msg: err.Error()}}}
	}
	defer os.RemoveAll(dir)
	var vs []sim.Violation
	bound := time.Duration(sc.TimeoutMs)*time.Millisecond + c19Margin
	var r c19Result
	var raw string
	var success bool
	for attempt := 0; attempt < 2; attempt++ {
		var path string
		path, raw, success = c19Script(dir, sc)
		if sc.Mode == "vanishing" {
			go func() { time.Sleep(time.Duration(50+attempt*200) * time.Microsecond); os.Remove(path) }()
		}
		if sc.Parallel >= 2 {
			rs := make([]c19Result, sc.Parallel)
			var wg sync.WaitGroup
			for i := range rs {
				wg.Add(1)
				go func() { defer wg.Done(); rs[i] = c19Call(sc, path) }()
			}
			wg.Wait()
			r = rs[0]
			for _, x := range rs[1:] { // judged: the slowest caller; a panic or a missing error of any caller
				if x.Elapsed > r.Elapsed {
					x.Panic, r = x.Panic+r.Panic, x
				} else {
					r.Panic += x.Panic
				}
				if (x.Err == nil) != (r.Err == nil) && x.Err == nil {
					r.Err, r.Out = nil, x.Out
				}
			}
		} else {
			r = c19Call(sc, path)
		}
		if r.Elapsed <= bound {
			break
		}
		// exceeded: re-run once alone; only a repeated excess counts
	}
	desc := fmt.Sprintf("mode %s via %s timeout %dms", sc.Mode, sc.Via, sc.TimeoutMs)
	if r.Panic != "" {
		key := "panic"
		if strings.Contains(r.Panic, "interface conversion") {
			key = "start-failure-type-assertion-panic"
		}
		vs = append(vs, sim.Violation{Key: key, Msg: desc + ": panic: " + r.Panic})
	}
	if r.Elapsed > bound {
		key := "returns-late"
		if strings.HasPrefix(sc.Mode, "grandchild") {
			key = "grandchild-holds-stdout-past-deadline"
		}
		vs = append(vs, sim.Violation{Key: key, Msg: fmt.Sprintf("%s: returned after %v (bound %v)", desc, r.Elapsed.Round(time.Millisecond), bound)})
	}
	numericNeeded := sc.Via == "sensor" || sc.Via == "fanGetPwm" || sc.Via == "fanGetRpm"
	if r.Panic == "" {
		switch {
		case sc.Mode == "vanishing":
			// either outcome is fine, but it must be clean
			if r.Err == nil && sc.Via == "exec" && strings.TrimSpace(r.Out) != "42" {
				vs = append(vs, sim.Violation{Key: "success-with-wrong-output", Msg: fmt.Sprintf("%s: output %q", desc, r.Out)})
			}
		case strings.HasPrefix(sc.Mode, "slow-"):
			// in time or timed out; a numeric backend has nothing it could return, and so has everybody after a non-zero exit
			if r.Err == nil && sc.Mode == "slow-exit-code" {
				vs = append(vs, sim.Violation{Key: "failure-without-error", Msg: fmt.Sprintf("%s: nil error, output %q", desc, clip(r.Out))})
			} else if r.Err == nil && numericNeeded {
				vs = append(vs, sim.Violation{Key: "garbage-accepted-as-number", Msg: fmt.Sprintf("%s: value %q", desc, r.Out)})
			} else if r.Err == nil && sc.Via == "exec" && strings.TrimSpace(r.Out) != strings.TrimSpace(raw) {
				vs = append(vs, sim.Violation{Key: "success-with-wrong-output", Msg: fmt.Sprintf("%s: raw %q returned %q", desc, clip(raw), clip(r.Out))})
			}
		case success && !(numericNeeded && (sc.Mode == "ok-empty" || sc.Mode == "ok-nonnumeric" || sc.Mode == "ok-big" || sc.Mode == "ok-whitespace")):
			if r.Err != nil {
				vs = append(vs, sim.Violation{Key: "success-reported-as-error", Msg: fmt.Sprintf("%s: error %v", desc, r.Err)})
			} else if sc.Via == "exec" && (strings.TrimSpace(r.Out) != strings.TrimSpace(raw) || len(r.Out) > len(raw)) {
				vs = append(vs, sim.Violation{Key: "output-not-trimmed-output", Msg: fmt.Sprintf("%s: raw %q returned %q", desc, clip(raw), clip(r.Out))})
			}
		case success && numericNeeded && sc.Mode == "ok-whitespace":
			// a number wrapped in blank lines and spaces: rejecting it and reading it as 42 are both fine
			if r.Err == nil && r.Out != "42" {
				vs = append(vs, sim.Violation{Key: "garbage-accepted-as-number", Msg: fmt.Sprintf("%s: value %q", desc, r.Out)})
			}
		case success && numericNeeded:
			// non-numeric output through a numeric backend: must be an error, never a number
			if r.Err == nil {
				vs = append(vs, sim.Violation{Key: "garbage-accepted-as-number", Msg: fmt.Sprintf("%s: value %q", desc, r.Out)})
			}
		case sc.Mode == "grandchild-holds-stdout" && r.Err == nil:
			// the command itself exited 0 in time and printed "1"; a child it left behind holds the
			// pipe. "Either the command's trimmed output or an error": its own output is acceptable.
			if sc.Via == "exec" && strings.TrimSpace(r.Out) != "1" {
				vs = append(vs, sim.Violation{Key: "success-with-wrong-output", Msg: fmt.Sprintf("%s: output %q, the command printed 1", desc, clip(r.Out))})
			}
		default:
			if r.Err == nil {
				key := "failure-without-error"
				if strings.HasPrefix(sc.Mode, "grandchild") {
					key = "grandchild-holds-stdout-past-deadline"
				}
				vs = append(vs, sim.Violation{Key: key, Msg: fmt.Sprintf("%s: nil error, output %q after %v", desc, clip(r.Out), r.Elapsed.Round(time.Millisecond))})
			} else if sc.Via == "exec" && r.Out != "" {
				vs = append(vs, sim.Violation{Key: "failure-with-output", Msg: fmt.Sprintf("%s: error %v but output %q", desc, r.Err, clip(r.Out))})
			}
		}
	}
	return verdict{vs: vs, nontrivial: !success, labels: []string{"mode:" + sc.Mode, "via:" + sc.Via, fmt.Sprintf("callers:%d", max(1, sc.Parallel))},
		outcome: map[string]any{"elapsedMs": r.Elapsed.Milliseconds(), "err": fmt.Sprint(r.Err), "out": clip(r.Out), "panic": r.Panic}}
}

func clip(s string) string {
	if len(s) > 40 {
		return s[:40] + fmt.Sprintf("...(%d bytes)", len(s))
	}
	return s
}

func TestC19(t *testing.T) { runProperty(t, "C19", genC19, runC19) }
