package props

// C07 (controller half) - with the direct algorithm the requested and the written PWM are
// non-decreasing in the curve value, for every fan limit and non-decreasing PWM map.

import (
	"fmt"
	"testing"

	"github.com/markusressel/fan2go/verifharness/sim"
	"pgregory.net/rapid"
)

type c07bScenario struct {
	Fan   sim.FanSpec `json:"fan"`
	Order []int       `json:"order"`
}

func genC07B(t *rapid.T) c07bScenario {
	fan, _ := genFan(t, fanOpts{monotone: true, alwaysRpm: true, kinds: []string{"hwmon", "hwmon", "hwmon", "file"}}) // 512 cycles per case: no script based fans here
	fan.RpmAvg0 = 1500
	return c07bScenario{Fan: fan, Order: rapid.Permutation(seq(0, 255)).Draw(t, "order")}
}

func runC07B(t *testing.T, sc c07bScenario) verdict {
	mk := func(f sim.FanSpec) sim.LoopScenario {
		var steps []sim.Step
		for _, cv := range sc.Order {
			steps = append(steps, sim.Step{Curve: cv})
		}
		return sim.LoopScenario{Fan: f, Loop: sim.LoopSpec{Kind: "direct"}, TickMs: 100, RpmPollMs: 1000, RpmWindow: 10,
			Law: sim.RpmLaw{Theta: 0, Rpm: 1500}, Steps: steps, Stop: sim.StopSpec{AtMs: -1}}
	}
	res := sim.RunLoop(t, mk(sc.Fan))
	idf := sc.Fan
	idf.PwmMap, idf.Quant = identityMap(), 0
	twin := sim.RunLoop(t, mk(idf))
	if len(res.Obs) != 256 || len(twin.Obs) != 256 {
		return verdict{vs: []sim.Violation{{Key: "harness", Msg: fmt.Sprintf("expected 256 cycles, saw %d / %d (%s)", len(res.Obs), len(twin.Obs), res.RunErr)}}}
	}
	W, R := make([]int, 256), make([]int, 256)
	for i, cv := range sc.Order {
		W[cv], R[cv] = res.Obs[i].Pwm, twin.Obs[i].Pwm
	}
	var vs []sim.Violation
	for cv := 1; cv < 256; cv++ {
		if R[cv] < R[cv-1] {
			vs = append(vs, sim.Violation{Key: "request-decreases-with-curve", Msg: fmt.Sprintf("curve %d -> request %d, curve %d -> request %d", cv-1, R[cv-1], cv, R[cv])})
			break
		}
	}
	for cv := 1; cv < 256; cv++ {
		if W[cv] < W[cv-1] {
			vs = append(vs, sim.Violation{Key: "written-decreases-with-curve", Msg: fmt.Sprintf("curve %d -> written %d, curve %d -> written %d (requests %d, %d)", cv-1, W[cv-1], cv, W[cv], R[cv-1], R[cv])})
			break
		}
	}
	distinct := map[int]bool{}
	for _, w := range W {
		distinct[w] = true
	}
	nt := !(R[0] == 0 && R[255] == 255) || len(distinct) < 256
	return verdict{vs: vs, nontrivial: nt, labels: []string{"controller-sweep", "kind:" + sc.Fan.Kind}, outcome: map[string]any{"R0": R[0], "R255": R[255], "W0": W[0], "W255": W[255], "distinctWritten": len(distinct)}}
}

func TestC07B(t *testing.T) { runProperty(t, "C07", genC07B, runC07B) }
