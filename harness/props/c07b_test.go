package props

// C07 (controller half) - with the direct algorithm the requested and the written PWM are
// non-decreasing in the curve value, for every fan limit and non-decreasing PWM map.

import (
	"fmt"
	"testing"

	"github.com/markusressel/fan2go/verifharness/sim"
	"pgregory.net/rapid"
)

type c07bScenario struct {
	Fan   sim.FanSpec `json:"fan"`
	Order []int       `json:"order"`
}

func genC07B(t *rapid.T) c07bScenario {
	fan, _ := genFan(t, fanOpts{monotone: true, alwaysRpm: true, kinds: []string{"hwmon", "hwmon", "hwmon", "file"}}) // 512 cycles per case: no script based fans here
	fan.RpmAvg0 = 1500
	if rapid.IntRange(0, 2).Draw(t, "style") > 0 {
		return c07bScenario{Fan: fan, Order: rapid.Permutation(seq(0, 255)).Draw(t, "order")}
	}
	// a temperature-like trajectory: small steps up and down, plateaus, an occasional jump
	cv := rapid.IntRange(0, 255).Draw(t, "cv0")
	order := make([]int, 0, 256)
	for len(order) < 256 {
		switch d := rapid.SampledFrom([]int{-2, -1, -1, -1, 0, 1, 1, 1, 2, 99}).Draw(t, "d"); d {
		case 99:
			cv = rapid.IntRange(0, 255).Draw(t, "jump")
		default:
			cv += d
		}
		cv = max(0, min(255, cv))
		order = append(order, cv)
	}
	return c07bScenario{Fan: fan, Order: order}
}

func runC07B(t *testing.T, sc c07bScenario) verdict {
	mk := func(f sim.FanSpec) sim.LoopScenario {
		var steps []sim.Step
		for _, cv := range sc.Order {
			steps = append(steps, sim.Step{Curve: cv})
		}
		return sim.LoopScenario{Fan: f, Loop: sim.LoopSpec{Kind: "direct"}, TickMs: 100, RpmPollMs: 1000, RpmWindow: 10,
			Law: sim.RpmLaw{Theta: 0, Rpm: 1500}, Steps: steps, Stop: sim.StopSpec{AtMs: -1}}
	}
	res := sim.RunLoop(t, mk(sc.Fan))
	idf := sc.Fan
	idf.PwmMap, idf.Quant = identityMap(), 0
	twin := sim.RunLoop(t, mk(idf))
	if len(res.Obs) != 256 || len(twin.Obs) != 256 {
		return verdict{vs: []sim.Violation{{Key: "harness", Msg: fmt.Sprintf("expected 256 cycles, saw %d / %d (%s)", len(res.Obs), len(twin.Obs), res.RunErr)}}}
	}
	// every two cycles of the history are compared: c_i <= c_j  =>  request_i <= request_j and written_i <= written_j
	// (per curve value the smallest and largest observation; ascending over the curve values)
	const none = -1 << 30
	minW, maxW, minR, maxR := make([]int, 256), make([]int, 256), make([]int, 256), make([]int, 256)
	at := make([]int, 256)
	for cv := range minW {
		minW[cv], maxW[cv], minR[cv], maxR[cv] = -none, none, -none, none
	}
	W, R := make([]int, 256), make([]int, 256)
	for i, cv := range sc.Order {
		w, r := res.Obs[i].Pwm, twin.Obs[i].Pwm
		W[cv], R[cv] = w, r
		minW[cv], maxW[cv] = min(minW[cv], w), max(maxW[cv], w)
		minR[cv], maxR[cv] = min(minR[cv], r), max(maxR[cv], r)
		at[cv] = i
	}
	var vs []sim.Violation
	hiW, hiR, hiWcv, hiRcv := none, none, -1, -1
	for cv := 0; cv < 256; cv++ {
		if maxW[cv] == none {
			continue // this curve value does not occur in the history
		}
		if minR[cv] < hiR || minR[cv] != maxR[cv] {
			if len(vs) == 0 {
				vs = append(vs, sim.Violation{Key: "request-decreases-with-curve", Msg: fmt.Sprintf("curve %d -> request %d..%d, although curve %d -> request %d earlier or later in the same history (cycle %d)", cv, minR[cv], maxR[cv], hiRcv, hiR, at[cv])})
			}
		}
		if minW[cv] < hiW || minW[cv] != maxW[cv] {
			vs = append(vs, sim.Violation{Key: "written-decreases-with-curve", Msg: fmt.Sprintf("curve %d -> written %d..%d, although curve %d -> written %d in the same history (cycle %d; requests %d..%d)", cv, minW[cv], maxW[cv], hiWcv, hiW, at[cv], minR[cv], maxR[cv])})
			break
		}
		if maxW[cv] > hiW {
			hiW, hiWcv = maxW[cv], cv
		}
		if maxR[cv] > hiR {
			hiR, hiRcv = maxR[cv], cv
		}
	}
	distinct := map[int]bool{}
	for _, w := range W {
		distinct[w] = true
	}
	nt := !(R[0] == 0 && R[255] == 255) || len(distinct) < 256 || len(distinct) > 8
	return verdict{vs: vs, nontrivial: nt, labels: []string{"controller-sweep", "kind:" + sc.Fan.Kind}, outcome: map[string]any{"R0": R[0], "R255": R[255], "W0": W[0], "W255": W[255], "distinctWritten": len(distinct)}}
}

func TestC07B(t *testing.T) { runProperty(t, "C07", genC07B, runC07B) }
