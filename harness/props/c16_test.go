package props

// C16 - with parallel initialisation disabled, fans are analysed one at a time.
//
// Per fan i the analysis interval I_i = [first PWM write, last PWM write before the curve's first
// evaluation] is taken from the device write logs (virtual timestamps).
// Oracle: runFanInitializationInParallel == false  =>  I_i and I_j are disjoint for all i != j.

import (
	"context"
	"fmt"
	"testing"
	"testing/synctest"
	"time"

	"github.com/markusressel/fan2go/internal/configuration"
	"github.com/markusressel/fan2go/internal/controller"
	"github.com/markusressel/fan2go/verifharness/sim"
	"pgregory.net/rapid"
)

type c16Fan struct {
	Spec    sim.FanSpec `json:"spec"`
	DelayMs int         `json:"delayMs"`
	// DataOnly: RPM curve data is stored but no PWM map (older database, interrupted first start):
	// the fan is swept on the start-up path instead of going through the initialization sequence
	DataOnly bool `json:"dataOnly,omitempty"`
	// PwmUnreadable: the PWM file cannot be read back (write-only control): the fan supports only one of
	// the two sensing features, and fan2go falls back to the value it last set
	PwmUnreadable bool `json:"pwmUnreadable,omitempty"`
}

type c16Scenario struct {
	Parallel bool     `json:"parallel"`
	Fans     []c16Fan `json:"fans"`
}

func genC16(t *rapid.T) c16Scenario {
	sc := c16Scenario{Parallel: rapid.IntRange(0, 4).Draw(t, "parallel") == 0}
	n := rapid.IntRange(2, 4).Draw(t, "nFans")
	for i := 0; i < n; i++ {
		f := sim.FanSpec{Kind: rapid.SampledFrom([]string{"hwmon", "hwmon", "file"}).Draw(t, "kind"), OrigMode: 2, OrigPwm: rapid.IntRange(0, 255).Draw(t, "origPwm"), NoStored: true}
		switch rapid.IntRange(0, 2).Draw(t, "map") {
		case 0:
			// small configured map: hwmon fans are measured at its keys only
			keys := rapid.SliceOfNDistinct(rapid.SampledFrom([]int{0, 40, 80, 120, 160, 200, 255}), 2, 5, rapid.ID[int]).Draw(t, "keys")
			m := map[int]int{}
			for _, k := range keys {
				m[k] = k
			}
			if f.Kind == "hwmon" {
				f.PwmMap = m
			}
		case 1:
			f.Quant = rapid.SampledFrom([]int{16, 51, 64}).Draw(t, "quant")
		}
		f.Slew = rapid.SampledFrom([]int{0, 0, 100, 300, 1000}).Draw(t, "slew")
		if f.Kind == "file" {
			f.NoRpm = rapid.Bool().Draw(t, "noRpm") // a fan with only one of the two features (PWM read-back, tacho)
		}
		dataOnly := f.PwmMap == nil && rapid.IntRange(0, 3).Draw(t, "dataOnly") == 0
		unreadable := f.Kind == "hwmon" && !dataOnly && rapid.IntRange(0, 5).Draw(t, "pwmUnreadable") == 0
		sc.Fans = append(sc.Fans, c16Fan{Spec: f, DataOnly: dataOnly, PwmUnreadable: unreadable, DelayMs: rapid.OneOf(rapid.IntRange(0, 30000), rapid.SampledFrom([]int{0, 0, 1, 1000, 2400, 3000})).Draw(t, "delayMs")})
	}
	return sc
}

type c16Interval struct {
	Fan      int     `json:"fan"`
	FromS    float64 `json:"fromS"`
	ToS      float64 `json:"toS"`
	Writes   int     `json:"writes"`
	StartedS float64 `json:"regulationStartS"`
}

func runC16(t *testing.T, sc c16Scenario) verdict { return runC16With(t, sc, false) }

// runC16Init: the same schedules, but every fan's analysis is started through the controller's own
// RunInitializationSequence (what `fan2go fan init` and Run call) instead of through Run - so fans of
// every kind and capability go through it, not only those for which Run decides to analyse.
func runC16Init(t *testing.T, sc c16Scenario) verdict {
	c16Direct = true
	defer func() { c16Direct = false }()
	return runC16With(t, sc, false)
}

var c16Direct bool

// runC16With runs the schedule either in a synctest bubble (virtual time, channel based init lock from
// the overlay) or - realTime - on the wall clock against the tree's own lock implementation.
func runC16With(t *testing.T, sc c16Scenario, realTime bool) verdict {
	sim.BaseConfig()
	configuration.CurrentConfig.RunFanInitializationInParallel = sc.Parallel
	pers := sim.NewMemPersistence()
	var rigs []*sim.Rig
	for i, f := range sc.Fans {
		rigs = append(rigs, sim.BuildRig(f.Spec, i, sim.RpmLaw{Theta: 0, Rpm: 1300}, 100))
		if f.DataOnly {
			pers.SeedLinearData(rigs[i].Fan.GetId())
		}
		if f.PwmUnreadable {
			rigs[i].Pwm.SetReadMode(sim.ReadEIO)
		}
	}
	defer func() {
		for _, r := range rigs {
			r.Close()
		}
	}()
	var vs []sim.Violation
	ivs := make([]c16Interval, len(rigs))
	hung := false
	body := func() {
		controller.VerifResetInitMutex()
		t0 := time.Now()
		ctx, cancel := context.WithCancel(context.Background())
		defer cancel()
		done := make(chan error, len(rigs))
		for i, r := range rigs {
			for _, d := range []*sim.Dev{r.Pwm, r.Enable, r.Rpm} {
				d.SetT0(t0)
			}
			r.Curve.Rebase(t0)
			ctl := controller.NewFanController(pers, r.Fan, sim.LoopSpec{Kind: "direct"}.Build(), 200*time.Millisecond)
			delay := time.Duration(sc.Fans[i].DelayMs) * time.Millisecond
			direct := c16Direct
			go func() {
				time.Sleep(delay)
				if direct {
					err := ctl.RunInitializationSequence()
					r.Curve.MarkFirstEval()
					done <- err
					return
				}
				done <- ctl.Run(ctx)
			}()
		}
		limit := 6 * time.Hour
		if realTime {
			limit = 5 * time.Minute
		}
		deadline := time.After(limit)
		for _, r := range rigs {
			select {
			case <-r.Curve.FirstEval:
			case <-deadline:
				hung = true
			}
			if hung {
				break
			}
		}
		if !realTime {
			synctest.Wait()
		}
		cancel()
		for range rigs {
			<-done
		}
		for i, r := range rigs {
			first := r.Curve.FirstAt()
			iv := c16Interval{Fan: i, StartedS: first.Seconds(), FromS: -1}
			for _, w := range r.Pwm.Writes(0) {
				if first > 0 && w.T >= first {
					break
				}
				if iv.Writes == 0 {
					iv.FromS = w.T.Seconds()
				}
				iv.ToS = w.T.Seconds()
				iv.Writes++
			}
			ivs[i] = iv
		}
	}
	if realTime {
		body()
	} else {
		synctest.Test(t, func(st *testing.T) { body() })
	}
	if hung {
		vs = append(vs, sim.Violation{Key: "analysis-never-finished", Msg: "not every fan reached regulation within 6 virtual hours (5 real minutes in the real-time tier)"})
	}
	minLen := 1e18
	for _, iv := range ivs {
		if iv.Writes == 0 {
			minLen = 0
		} else if iv.ToS-iv.FromS < minLen {
			minLen = iv.ToS - iv.FromS
		}
	}
	overlap := false
	if !sc.Parallel {
		for i := range ivs {
			for j := i + 1; j < len(ivs); j++ {
				a, b := ivs[i], ivs[j]
				if a.Writes == 0 || b.Writes == 0 {
					continue
				}
				if a.FromS < b.ToS && b.FromS < a.ToS { // strict: a lock hand-over happens at one virtual instant
					overlap = true
					if len(vs) < 2 {
						vs = append(vs, sim.Violation{Key: "analyses-overlap", Msg: fmt.Sprintf("runFanInitializationInParallel=false, yet fan %d is analysed during [%.1fs, %.1fs] and fan %d during [%.1fs, %.1fs]", i, a.FromS, a.ToS, j, b.FromS, b.ToS)})
					}
				}
			}
		}
	}
	_ = overlap
	// non-trivial: mutual exclusion, not luck, must separate them
	maxDelay := 0.0
	for _, f := range sc.Fans {
		if d := float64(f.DelayMs) / 1000; d > maxDelay {
			maxDelay = d
		}
	}
	firstLen := 0.0
	for _, iv := range ivs {
		if iv.Writes > 0 && (firstLen == 0 || iv.ToS-iv.FromS > firstLen) {
			firstLen = iv.ToS - iv.FromS
		}
	}
	nt := !sc.Parallel && minLen >= 1 && maxDelay < firstLen
	labels := []string{fmt.Sprintf("fans:%d", len(sc.Fans))}
	if sc.Parallel {
		labels = append(labels, "parallel")
	} else {
		labels = append(labels, "serial")
	}
	return verdict{vs: vs, nontrivial: nt, labels: labels, outcome: ivs}
}

func TestC16(t *testing.T) { runProperty(t, "C16", genC16, runC16) }

func TestC16Init(t *testing.T) {
	runProperty(t, "C16", func(t *rapid.T) c16Scenario {
		sc := genC16(t)
		for i := range sc.Fans {
			sc.Fans[i].DataOnly = false
		}
		return sc
	}, runC16Init)
}

// TestC16RT is the real-time cross-check (thorough tier): the same oracle on the wall clock, in a test
// binary built WITHOUT the channel-mutex overlay, i.e. against whatever lock the tree itself uses.
// Slowness can only lengthen an interval, never make disjoint intervals overlap: every analysis write
// happens while the lock is held, and a monotonic clock orders unlock before the next lock.
func genC16RT(t *rapid.T) c16Scenario {
	sc := c16Scenario{Parallel: false}
	n := rapid.IntRange(2, 3).Draw(t, "nFans")
	for i := 0; i < n; i++ {
		f := sim.FanSpec{Kind: rapid.SampledFrom([]string{"hwmon", "hwmon", "hwmon", "file"}).Draw(t, "kind"), OrigMode: 2, OrigPwm: rapid.IntRange(0, 255).Draw(t, "origPwm"), NoStored: true}
		if f.Kind == "hwmon" {
			keys := rapid.SliceOfNDistinct(rapid.SampledFrom([]int{0, 40, 80, 120, 160, 200, 255}), 2, 3, rapid.ID[int]).Draw(t, "keys")
			f.PwmMap = map[int]int{}
			for _, k := range keys {
				f.PwmMap[k] = k
			}
		}
		f.Slew = rapid.SampledFrom([]int{0, 0, 100, 300}).Draw(t, "slew")
		sc.Fans = append(sc.Fans, c16Fan{Spec: f, DelayMs: rapid.SampledFrom([]int{0, 0, 1, 50, 500, 1000, 2400, 3000}).Draw(t, "delayMs")})
	}
	return sc
}

func TestC16RT(t *testing.T) {
	runProperty(t, "C16", genC16RT, func(t *testing.T, sc c16Scenario) verdict {
		v := runC16With(t, sc, true)
		v.labels = append(v.labels, "real-time")
		return v
	})
}
