package props

// C20 - concurrent activities are free of data races.
//
// Oracle: the Go race detector (binary built with -race) plus "no fatal error" abort. Generated
// inputs are workloads: fans/sensors/curves with sharing, per-activity periods, a stall episode.
// Everything is real: objects wired by internal.InitializeObjects, sensor monitors, controller.Run
// (RPM monitor + control loop), REST handlers invoked through ServeHTTP, Prometheus gathering.
// Devices are plain files here (no virtual devices): the device models' own locks would add
// happens-before edges that real sysfs files do not have and could hide races.
// Each case prints a "C20-CASE <json>" line to stderr before it runs; the driver attributes the
// race reports that follow to that case, reduces each to a signature (innermost fan2go frames of
// the two accesses) and compares with known_findings.json.

import (
	"context"
	"encoding/json"
	"fmt"
	"net/http"
	"net/http/httptest"
	"os"
	"path/filepath"
	"sync/atomic"
	"testing"
	"testing/synctest"
	"time"

	"github.com/markusressel/fan2go/internal"
	"github.com/markusressel/fan2go/internal/api"
	"github.com/markusressel/fan2go/internal/configuration"
	"github.com/markusressel/fan2go/internal/controller"
	"github.com/markusressel/fan2go/internal/fans"
	"github.com/markusressel/fan2go/internal/sensors"
	"github.com/markusressel/fan2go/internal/statistics"
	"github.com/markusressel/fan2go/verifharness/sim"
	"github.com/prometheus/client_golang/prometheus"
	"pgregory.net/rapid"
)

type c20Curve struct {
	Kind    string `json:"kind"` // linear | steps | pid | function
	Sensor  int    `json:"sensor"`
	Fn      string `json:"fn,omitempty"`
	Members []int  `json:"members,omitempty"`
}

type c20Fan struct {
	Kind      string `json:"kind"` // hwmon | file
	NeverStop bool   `json:"neverStop"`
	Curve     int    `json:"curve"`
	Loop      string `json:"loop"` // direct | pid
	Stalled   bool   `json:"stalled"`
}

type c20Scenario struct {
	Sensors   []string   `json:"sensors"` // kinds: file | hwmon | cmd
	Curves    []c20Curve `json:"curves"`
	Fans      []c20Fan   `json:"fans"`
	TickMs    int        `json:"tickMs"`
	RpmPollMs int        `json:"rpmPollMs"`
	TempMs    int        `json:"tempMs"`
	ApiMs     int        `json:"apiMs"`
	MetricsMs int        `json:"metricsMs"`
	// Aligned: one more Prometheus scraper whose period is the control tick and whose phase is the
	// controllers' (Run's start-up wait), so that scrapes and control cycles become runnable at the same
	// virtual instant and run truly in parallel - the other activities are kept off each other's grid
	Aligned bool `json:"aligned,omitempty"`
	Seconds int  `json:"seconds"`
	// Outage: every fourth second the temperature files hold garbage for one second (sensor outage):
	// the error paths of sensors, curves and controllers run concurrently with everything else
	Outage bool `json:"outage,omitempty"`
}

func genC20(t *rapid.T) c20Scenario {
	sc := c20Scenario{TickMs: rapid.SampledFrom([]int{50, 100, 200}).Draw(t, "tickMs"), RpmPollMs: rapid.SampledFrom([]int{50, 100, 300, 1000}).Draw(t, "rpmPollMs"),
		TempMs: rapid.SampledFrom([]int{10, 50, 200}).Draw(t, "tempMs"), ApiMs: rapid.SampledFrom([]int{7, 33, 150}).Draw(t, "apiMs"),
		MetricsMs: rapid.SampledFrom([]int{11, 70, 500}).Draw(t, "metricsMs"), Seconds: rapid.IntRange(5, 30).Draw(t, "seconds")}
	ns := rapid.IntRange(1, 3).Draw(t, "nSensors")
	for i := 0; i < ns; i++ {
		sc.Sensors = append(sc.Sensors, rapid.SampledFrom([]string{"file", "hwmon", "file", "hwmon", "cmd"}).Draw(t, "sensorKind"))
	}
	for _, k := range sc.Sensors {
		if k == "cmd" && sc.TempMs < 200 {
			sc.TempMs = 200 // every poll of a script based sensor is a process execution
		}
	}
	nc := rapid.IntRange(1, 6).Draw(t, "nCurves")
	for i := 0; i < nc; i++ {
		c := c20Curve{Kind: rapid.SampledFrom([]string{"linear", "steps", "pid", "function"}).Draw(t, "curveKind"), Sensor: rapid.IntRange(0, ns-1).Draw(t, "sensor")}
		if c.Kind == "function" && i == 0 {
			c.Kind = "linear"
		}
		if c.Kind == "function" {
			c.Fn = rapid.SampledFrom(fnAll).Draw(t, "fn")
			k := rapid.IntRange(1, 3).Draw(t, "nMembers")
			for m := 0; m < k; m++ {
				c.Members = append(c.Members, rapid.IntRange(0, i-1).Draw(t, "member"))
			}
		}
		sc.Curves = append(sc.Curves, c)
	}
	sc.Outage = rapid.Bool().Draw(t, "outage")
	sc.Aligned = rapid.Bool().Draw(t, "aligned")
	nf := rapid.IntRange(1, 4).Draw(t, "nFans")
	for i := 0; i < nf; i++ {
		// several fans sharing one curve is the interesting case
		sc.Fans = append(sc.Fans, c20Fan{Kind: rapid.SampledFrom([]string{"hwmon", "hwmon", "file"}).Draw(t, "fanKind"), NeverStop: rapid.Bool().Draw(t, "neverStop"),
			Curve: rapid.OneOf(rapid.Just(nc-1), rapid.IntRange(0, nc-1)).Draw(t, "curve"), Loop: rapid.SampledFrom([]string{"direct", "pid"}).Draw(t, "loop"),
			Stalled: rapid.IntRange(0, 3).Draw(t, "stalled") == 0})
	}
	return sc
}

type c20Counts struct {
	Control, RpmPolls, SensorPolls, Api, Metrics int64
}

func runC20(t *testing.T, sc c20Scenario, out *c20Counts) (problem string) {
	var counts c20Counts
	dir, err := os.MkdirTemp(sim.WorkDir(), "c20-")
	if err != nil {
		return err.Error()
	}
	defer os.RemoveAll(dir)
	sim.BaseConfig()
	cfg := &configuration.CurrentConfig
	cfg.ControllerAdjustmentTickRate = time.Duration(sc.TickMs) * time.Millisecond
	cfg.RpmPollingRate = time.Duration(sc.RpmPollMs)*time.Millisecond + 137*time.Nanosecond
	cfg.TempSensorPollingRate = time.Duration(sc.TempMs)*time.Millisecond + 71*time.Nanosecond
	cfg.RpmRollingWindowSize = 3
	cfg.TempRollingWindowSize = 3
	tree := filepath.Join(dir, "hwmon")
	os.Setenv("FAN2GO_VERIF_HWMON_ROOT", tree)
	w := func(p, v string) { _ = os.WriteFile(p, []byte(v+"\n"), 0644) }
	tchip := filepath.Join(tree, "hwmon1")
	os.MkdirAll(tchip, 0755)
	w(filepath.Join(tchip, "name"), "coretemp")
	w(filepath.Join(tchip, "verif_bus"), "1 0 0x0")
	fchip := filepath.Join(tree, "hwmon0")
	os.MkdirAll(fchip, 0755)
	w(filepath.Join(fchip, "name"), "nct6798")
	w(filepath.Join(fchip, "verif_bus"), "1 0 0x290")
	var tempFiles []string
	for i, k := range sc.Sensors {
		id := fmt.Sprintf("s%d", i)
		if k == "hwmon" {
			p := filepath.Join(tchip, fmt.Sprintf("temp%d_input", i+1))
			w(p, "45000")
			tempFiles = append(tempFiles, p)
			// index = position among the chip's temperature inputs
			idx := 0
			for j := 0; j <= i; j++ {
				if sc.Sensors[j] == "hwmon" {
					idx++
				}
			}
			cfg.Sensors = append(cfg.Sensors, configuration.SensorConfig{ID: id, HwMon: &configuration.HwMonSensorConfig{Platform: "coretemp", Index: idx}})
		} else if k == "cmd" {
			p := filepath.Join(dir, "temp_"+id)
			w(p, "45000")
			tempFiles = append(tempFiles, p)
			script := filepath.Join(dir, "sensor_"+id+".sh")
			_ = os.WriteFile(script, []byte("#!/bin/sh\ncat "+p+"\n"), 0755)
			cfg.Sensors = append(cfg.Sensors, configuration.SensorConfig{ID: id, Cmd: &configuration.CmdSensorConfig{Exec: script}})
		} else {
			p := filepath.Join(dir, "temp_"+id)
			w(p, "45000")
			tempFiles = append(tempFiles, p)
			cfg.Sensors = append(cfg.Sensors, configuration.SensorConfig{ID: id, File: &configuration.FileSensorConfig{Path: p}})
		}
	}
	for i, c := range sc.Curves {
		id := fmt.Sprintf("c%d", i)
		sid := fmt.Sprintf("s%d", c.Sensor)
		switch c.Kind {
		case "linear":
			cfg.Curves = append(cfg.Curves, configuration.CurveConfig{ID: id, Linear: &configuration.LinearCurveConfig{Sensor: sid, Min: 30, Max: 80}})
		case "steps":
			cfg.Curves = append(cfg.Curves, configuration.CurveConfig{ID: id, Linear: &configuration.LinearCurveConfig{Sensor: sid, Steps: map[int]float64{30: 20, 50: 100, 80: 255}}})
		case "pid":
			cfg.Curves = append(cfg.Curves, configuration.CurveConfig{ID: id, PID: &configuration.PidCurveConfig{Sensor: sid, SetPoint: 50, P: -0.05, I: -0.005, D: -0.006}})
		default:
			var ms []string
			for _, m := range c.Members {
				ms = append(ms, fmt.Sprintf("c%d", m))
			}
			cfg.Curves = append(cfg.Curves, configuration.CurveConfig{ID: id, Function: &configuration.FunctionCurveConfig{Type: c.Fn, Curves: ms}})
		}
	}
	var rpmFiles []string
	for i, f := range sc.Fans {
		id := fmt.Sprintf("f%d", i)
		pm := identityMap()
		fc := configuration.FanConfig{ID: id, Curve: fmt.Sprintf("c%d", f.Curve), NeverStop: f.NeverStop, PwmMap: &pm, MinPwm: ip(10), MaxPwm: ip(240)}
		if f.Loop == "direct" {
			fc.ControlAlgorithm = &configuration.ControlAlgorithmConfig{Direct: &configuration.DirectControlAlgorithmConfig{}}
		}
		rpm := "1200"
		if f.Stalled {
			rpm = "0"
		}
		if f.Kind == "hwmon" {
			ch := i + 1
			w(filepath.Join(fchip, fmt.Sprintf("fan%d_input", ch)), rpm)
			w(filepath.Join(fchip, fmt.Sprintf("pwm%d", ch)), "100")
			w(filepath.Join(fchip, fmt.Sprintf("pwm%d_enable", ch)), "2")
			rpmFiles = append(rpmFiles, filepath.Join(fchip, fmt.Sprintf("fan%d_input", ch)))
			fc.HwMon = &configuration.HwMonFanConfig{Platform: "nct6798", RpmChannel: ch}
		} else {
			pp, rp := filepath.Join(dir, "pwm_"+id), filepath.Join(dir, "rpm_"+id)
			w(pp, "100")
			w(rp, rpm)
			rpmFiles = append(rpmFiles, rp)
			fc.File = &configuration.FileFanConfig{Path: pp, RpmPath: rp}
		}
		cfg.Fans = append(cfg.Fans, fc)
	}
	freshPrometheus()
	fanMap, err := internal.InitializeObjects()
	if err != nil {
		return "InitializeObjects: " + err.Error()
	}
	mem := sim.NewMemPersistence()
	var ctls []controller.FanController
	for fcfg, fan := range fanMap {
		mem.SeedLinearData(fan.GetId())
		loop := sim.LoopSpec{Kind: "pid", P: 0.3, I: 0.02, D: 0.005}
		if fcfg.ControlAlgorithm != nil {
			loop = sim.LoopSpec{Kind: "direct"}
		}
		ctls = append(ctls, controller.NewFanController(mem, fan, loop.Build(), cfg.ControllerAdjustmentTickRate))
	}
	statistics.Register(statistics.NewControllerCollector(ctls))
	rest := api.CreateRestService()
	var nApi, nMetrics atomic.Int64
	secs := int64(sc.Seconds)
	// filled in by a deferred function: when the race detector fired, synctest.Test ends the
	// (sub)test with FailNow and this function never returns normally
	defer func() {
		*out = c20Counts{Control: secs * 1000 / int64(sc.TickMs) * int64(len(sc.Fans)), RpmPolls: secs * 1000 / int64(sc.RpmPollMs) * int64(len(sc.Fans)),
			SensorPolls: secs * 1000 / int64(sc.TempMs) * int64(len(sc.Sensors)), Api: nApi.Load(), Metrics: nMetrics.Load()}
	}()
	synctest.Test(t, func(st *testing.T) {
		controller.VerifResetInitMutex()
		ctx, cancel := context.WithCancel(context.Background())
		defer cancel()
		done := make(chan struct{}, 64)
		running := 0
		spawn := func(f func()) {
			running++
			go func() { f(); done <- struct{}{} }()
		}
		for _, s := range sensors.SnapshotSensorMap() {
			mon := internal.NewSensorMonitor(s, cfg.TempSensorPollingRate)
			spawn(func() { _ = mon.Run(ctx) })
		}
		for _, c := range ctls {
			spawn(func() { _ = c.Run(ctx) })
		}
		paths := []string{"/fan/", "/sensor/", "/curve/"}
		for i := range sc.Fans {
			paths = append(paths, fmt.Sprintf("/fan/f%d/", i))
		}
		for i := range sc.Sensors {
			paths = append(paths, fmt.Sprintf("/sensor/s%d/", i))
		}
		for i := range sc.Curves {
			paths = append(paths, fmt.Sprintf("/curve/c%d/", i))
		}
		spawn(func() {
			tk := time.NewTicker(time.Duration(sc.ApiMs)*time.Millisecond + 13*time.Nanosecond)
			defer tk.Stop()
			i := 0
			for {
				select {
				case <-ctx.Done():
					return
				case <-tk.C:
					req := httptest.NewRequest(http.MethodGet, paths[i%len(paths)], nil)
					rec := httptest.NewRecorder()
					rest.ServeHTTP(rec, req)
					nApi.Add(1)
					i++
				}
			}
		})
		spawn(func() {
			tk := time.NewTicker(time.Duration(sc.MetricsMs)*time.Millisecond + 29*time.Nanosecond)
			defer tk.Stop()
			for {
				select {
				case <-ctx.Done():
					return
				case <-tk.C:
					_, _ = prometheus.DefaultGatherer.Gather()
					nMetrics.Add(1)
				}
			}
		})
		if sc.Aligned {
			spawn(func() {
				select {
				case <-ctx.Done():
					return
				case <-time.After(2*time.Second + 2*cfg.TempSensorPollingRate):
				}
				tk := time.NewTicker(cfg.ControllerAdjustmentTickRate)
				defer tk.Stop()
				for {
					select {
					case <-ctx.Done():
						return
					case <-tk.C:
						// what the collector reads, many times while the control cycles of this instant run
						for k := 0; k < 400; k++ {
							for _, c := range ctls {
								_ = c.GetStatistics()
							}
						}
						_, _ = prometheus.DefaultGatherer.Gather()
						nMetrics.Add(1)
					}
				}
			})
		}
		// the world changes: temperatures move, a stalled fan may start to spin
		for s := 0; s < sc.Seconds; s++ {
			time.Sleep(time.Second)
			for i, p := range tempFiles {
				if sc.Outage && s%4 == 1 {
					w(p, "n/a")
					continue
				}
				w(p, fmt.Sprint(40000+((s*3700+i*9000)%45000)))
			}
			if s == sc.Seconds/2 {
				for i, f := range sc.Fans {
					if f.Stalled && i%2 == 0 {
						w(rpmFiles[i], "900")
					}
				}
			}
		}
		cancel()
		for i := 0; i < running; i++ {
			<-done
		}
	})
	_ = fans.MaxPwmValue
	_ = counts
	return ""
}

func TestC20(t *testing.T) {
	st := sim.NewStats("C20")
	defer st.Flush()
	if !raceEnabled {
		t.Skip("C20 needs the race-enabled test binary")
	}
	exec := func(sc c20Scenario) {
		b, _ := json.Marshal(sc)
		fmt.Fprintf(os.Stderr, "\nC20-CASE %s\n", b)
		sim.CaseFile("C20", "TestC20", sc)
		var counts c20Counts
		var problem string
		// own subtest: the testing package fails (FailNow) the test in which a race was detected
		t.Run("case", func(st *testing.T) { problem = runC20(st, sc, &counts) })
		if problem != "" {
			fmt.Fprintf(os.Stderr, "C20-PROBLEM %s\n", problem)
			st.Label("harness-problem")
		}
		kinds := 0
		for _, n := range []int64{counts.Control, counts.RpmPolls, counts.SensorPolls, counts.Api, counts.Metrics} {
			if n >= 10 {
				kinds++
			}
		}
		shared := false
		seen := map[int]bool{}
		for _, f := range sc.Fans {
			if seen[f.Curve] {
				shared = true
			}
			seen[f.Curve] = true
		}
		labels := []string{}
		if shared {
			labels = append(labels, "fans-share-a-curve")
		}
		for _, f := range sc.Fans {
			if f.Stalled && f.NeverStop {
				labels = append(labels, "stall-episode")
				break
			}
		}
		if sc.Aligned {
			labels = append(labels, "scrape-aligned-with-control-ticks")
		}
		st.Case(map[string]any{"scenario": sc, "activityCounts": counts}, kinds >= 3, labels...)
	}
	if p := os.Getenv("VERIF_REPLAY"); p != "" {
		var sc c20Scenario
		if err := sim.LoadReplay(p, &sc); err != nil {
			t.Fatalf("cannot load replay: %v", err)
		}
		exec(sc)
		return
	}
	// Not rapid.Check: the testing package marks the test failed at the first detected race, which
	// would stop the search after one case. Scenarios are drawn from the same generator, one per
	// seed value, and all of them are executed; the verdict is taken from the race reports.
	n := envInt("VERIF_C20_CASES", 6)
	base := envInt("VERIF_SEED", 1)*100000 + envInt("VERIF_SHARD", 0)*1000
	g := rapid.Custom(genC20)
	for i := 0; i < n; i++ {
		exec(g.Example(base + i))
	}
}
