// persistworker executes a list of persistence operations against a bbolt file through fan2go's
// real persistence API, announcing "begin i" / "end i" on stdout around each one (C14 crash tier),
// or dumps every entry as JSON ("dump" mode, run by a fresh process after the kill).
package main

import (
	"encoding/json"
	"errors"
	"fmt"
	"os"

	"github.com/markusressel/fan2go/internal/configuration"
	"github.com/markusressel/fan2go/internal/fans"
	"github.com/markusressel/fan2go/internal/persistence"
	"github.com/pterm/pterm"
)

type Op struct {
	Op   string          `json:"op"` // saveData saveMap deleteData deleteMap
	Id   string          `json:"id"`
	Data map[int]float64 `json:"data,omitempty"`
	Map  map[int]int     `json:"map,omitempty"`
}

type Dump struct {
	Data map[string]map[int]float64 `json:"data"`
	Maps map[string]map[int]int     `json:"maps"`
	Errs []string                   `json:"errs"`
}

func fan(id string, data map[int]float64) fans.Fan {
	f, _ := fans.NewFan(configuration.FanConfig{ID: id, HwMon: &configuration.HwMonFanConfig{}})
	if data != nil {
		d := map[int]float64{}
		for k, v := range data {
			d[k] = v
		}
		f.(*fans.HwMonFan).FanCurveData = &d
	}
	return f
}

func main() {
	pterm.DisableOutput()
	if len(os.Args) < 4 {
		fmt.Fprintln(os.Stderr, "usage: persistworker run|dump <db> <ops.json|ids.json>")
		os.Exit(2)
	}
	p := persistence.NewPersistence(os.Args[2])
	b, err := os.ReadFile(os.Args[3])
	if err != nil {
		fmt.Fprintln(os.Stderr, err)
		os.Exit(2)
	}
	switch os.Args[1] {
	case "run":
		var ops []Op
		if err := json.Unmarshal(b, &ops); err != nil {
			fmt.Fprintln(os.Stderr, err)
			os.Exit(2)
		}
		_ = p.Init()
		for i, op := range ops {
			fmt.Fprintf(os.Stdout, "begin %d\n", i) // os.Stdout is unbuffered: one write syscall per line
			var err error
			switch op.Op {
			case "saveData":
				d := op.Data
				if d == nil {
					d = map[int]float64{}
				}
				err = p.SaveFanPwmData(fan(op.Id, d))
			case "saveMap":
				err = p.SaveFanPwmMap(op.Id, op.Map)
			case "deleteData":
				err = p.DeleteFanPwmData(fan(op.Id, nil))
			case "deleteMap":
				err = p.DeleteFanPwmMap(op.Id)
			}
			if err != nil {
				fmt.Fprintf(os.Stdout, "error %d %v\n", i, err)
			}
			fmt.Fprintf(os.Stdout, "end %d\n", i)
		}
	case "dump":
		var ids []string
		if err := json.Unmarshal(b, &ids); err != nil {
			fmt.Fprintln(os.Stderr, err)
			os.Exit(2)
		}
		out := Dump{Data: map[string]map[int]float64{}, Maps: map[string]map[int]int{}}
		for _, id := range ids {
			if d, err := p.LoadFanPwmData(fan(id, nil)); err == nil {
				if d == nil {
					d = map[int]float64{}
				}
				out.Data[id] = d
			} else if !errors.Is(err, os.ErrNotExist) {
				out.Errs = append(out.Errs, fmt.Sprintf("data %q: %v", id, err))
			}
			if m, err := p.LoadFanPwmMap(id); err == nil {
				if m == nil {
					m = map[int]int{}
				}
				out.Maps[id] = m
			} else if !errors.Is(err, os.ErrNotExist) {
				out.Errs = append(out.Errs, fmt.Sprintf("map %q: %v", id, err))
			}
		}
		_ = json.NewEncoder(os.Stdout).Encode(out)
	}
}
