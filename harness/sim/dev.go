// Package sim holds the scripted collaborators the property checks put around the real fan2go
// code: virtual devices (served through the check-time overlay of internal/util/file.go),
// scripted curves and sensors, an in-memory persistence, and the statistics / evidence recorder.
package sim

import (
	"errors"
	"fmt"
	"os"
	"strconv"
	"strings"
	"sync"
	"syscall"
	"time"

	"github.com/markusressel/fan2go/internal/util"
)

// Write modes of a device.
const (
	WriteOK     = 0 // value is stored (after quantisation)
	WriteRefuse = 1 // write returns an error, value unchanged
	WriteIgnore = 2 // write returns nil, value unchanged (driver silently ignores it)
)

// Read modes of a device.
const (
	ReadOK      = 0
	ReadEIO     = 1 // generic I/O error
	ReadEACCES  = 2 // permission error (errors.Is(err, os.ErrPermission))
	ReadGarbage = 3 // file content is not a number (strconv error)
	ReadEmpty   = 4 // file is empty
	ReadMissing = 5 // file does not exist
	ReadBlank   = 6 // file holds white space only (a lone newline, blanks)
	ReadNaN     = 7 // file holds "nan" / "inf" / ... : text that a float parser would take
	ReadRange   = 8 // file holds a well-formed integer far outside the quantity's range (-1, 65535, ...)
)

// contents served (through fan2go's own parser) for the text based fault modes, rotating per read
var (
	garbageTexts = []string{"garbage\n", "n/a\n", "12abc\n", "--\n"}
	blankTexts   = []string{"\n", " \n", "\t\n", "   "}
	nanTexts     = []string{"nan\n", "inf\n", "-Inf\n", "NaN\n", "+inf\n"}
	rangeValues  = []int{-1, 65535, 256, -2147483648, 300, 2147483647}
)

// WriteRec is one entry of a device's append-only write log.
type WriteRec struct {
	T      time.Duration `json:"t"`      // (virtual) time since the scenario's start
	V      int           `json:"v"`      // value fan2go tried to write
	Stored int           `json:"stored"` // value of the device afterwards
	Mode   int           `json:"mode"`   // write mode in force
}

// Dev is an integer valued virtual device (a pwmN, pwmN_enable, fanN_input or tempN_input file).
type Dev struct {
	mu        sync.Mutex
	Name      string
	val       int
	Quant     int // > 1: the device stores (v / Quant) * Quant
	WriteMode int
	ReadMode  int
	// ReadFn, when set, computes the value returned by reads (e.g. an RPM law over a PWM device).
	ReadFn func() int
	// OnWrite, when set, is called (without the lock held) after a successful write.
	OnWrite func(v int)
	// BeforeWrite, when set, is called (without the lock held) before a write is processed; it lets a
	// scenario act in the middle of a control cycle (e.g. cancel the controller while a write is in flight).
	BeforeWrite func(v int)
	writes      []WriteRec
	reads       int
	faultReads  int // reads served in a text / range fault mode (selects the rotating content)
	t0          time.Time
	// file != "": the device lives in plain files that /bin/sh scripts of a cmd fan read and write
	// (<file> value, <file>.log write attempts, <file>.reads read count, <file>.wmode / .rmode fault modes)
	file string
}

func NewDev(name string, val int) *Dev { return &Dev{Name: name, val: val, t0: time.Now()} }

// SetT0 sets the origin of the timestamps in the write log (call inside the bubble).
func (d *Dev) SetT0(t time.Time) { d.mu.Lock(); d.t0 = t; d.mu.Unlock() }

// NewFileDev creates a device kept in plain files for script based (cmd) fans.
func NewFileDev(path string, val int) *Dev {
	d := &Dev{Name: path, file: path, t0: time.Now()}
	d.Set(val)
	for _, suffix := range []string{".log", ".reads"} {
		_ = os.WriteFile(path+suffix, nil, 0644)
	}
	d.SetWriteMode(WriteOK)
	d.SetReadMode(ReadOK)
	return d
}

func fileInt(p string) int {
	b, err := os.ReadFile(p)
	if err != nil {
		return -1
	}
	v, err := strconv.Atoi(strings.TrimSpace(string(b)))
	if err != nil {
		return -1
	}
	return v
}

func fileLines(p string) []string {
	b, _ := os.ReadFile(p)
	return strings.Fields(string(b))
}

func (d *Dev) Get() int {
	if d.file != "" {
		return fileInt(d.file)
	}
	d.mu.Lock()
	defer d.mu.Unlock()
	return d.val
}

// Set changes the stored value directly (third party / physics), bypassing the write log.
func (d *Dev) Set(v int) {
	if d.file != "" {
		_ = os.WriteFile(d.file, []byte(strconv.Itoa(v)+"\n"), 0644)
		return
	}
	d.mu.Lock()
	d.val = v
	d.mu.Unlock()
}
func (d *Dev) SetBeforeWrite(f func(v int)) { d.mu.Lock(); d.BeforeWrite = f; d.mu.Unlock() }
func (d *Dev) SetWriteMode(m int) {
	if d.file != "" {
		_ = os.WriteFile(d.file+".wmode", []byte(strconv.Itoa(m)), 0644)
	}
	d.mu.Lock()
	d.WriteMode = m
	d.mu.Unlock()
}
func (d *Dev) SetReadMode(m int) {
	if d.file != "" {
		_ = os.WriteFile(d.file+".rmode", []byte(strconv.Itoa(m)), 0644)
	}
	d.mu.Lock()
	d.ReadMode = m
	d.mu.Unlock()
}
func (d *Dev) Reads() int {
	if d.file != "" {
		return len(fileLines(d.file + ".reads"))
	}
	d.mu.Lock()
	defer d.mu.Unlock()
	return d.reads
}
func (d *Dev) NumWrites() int {
	if d.file != "" {
		return len(fileLines(d.file + ".log"))
	}
	d.mu.Lock()
	defer d.mu.Unlock()
	return len(d.writes)
}

// Writes returns a copy of the write log starting at index from.
func (d *Dev) Writes(from int) []WriteRec {
	if d.file != "" {
		// the scripts log "<value>:<stored afterwards>"; there are no timestamps (T stays 0)
		var out []WriteRec
		for i, l := range fileLines(d.file + ".log") {
			if i < from {
				continue
			}
			var v, st int
			_, _ = fmt.Sscanf(l, "%d:%d", &v, &st)
			out = append(out, WriteRec{V: v, Stored: st})
		}
		return out
	}
	d.mu.Lock()
	defer d.mu.Unlock()
	if from > len(d.writes) {
		from = len(d.writes)
	}
	return append([]WriteRec(nil), d.writes[from:]...)
}

func (d *Dev) quantise(v int) int {
	if d.Quant > 1 {
		return (v / d.Quant) * d.Quant
	}
	return v
}

func readErr(mode int, name string) error {
	switch mode {
	case ReadEIO:
		return &os.PathError{Op: "read", Path: name, Err: syscall.EIO}
	case ReadEACCES:
		return &os.PathError{Op: "open", Path: name, Err: syscall.EACCES}
	case ReadGarbage:
		_, err := strconv.Atoi("garbage")
		return err
	case ReadEmpty:
		return fmt.Errorf("file is empty: %s", name)
	case ReadMissing:
		return &os.PathError{Op: "open", Path: name, Err: syscall.ENOENT}
	}
	return nil
}

// VReadText implements util.VTextDev: in the content based fault modes the device only decides what the
// file holds; fan2go's own ReadIntFromFile parses it.
func (d *Dev) VReadText() (string, bool) {
	d.mu.Lock()
	defer d.mu.Unlock()
	var set []string
	switch d.ReadMode {
	case ReadGarbage:
		set = garbageTexts
	case ReadBlank:
		set = blankTexts
	case ReadNaN:
		set = nanTexts
	case ReadEmpty:
		set = []string{""}
	default:
		return "", false
	}
	d.reads++
	d.faultReads++
	return set[(d.faultReads-1)%len(set)], true
}

// VRead implements util.VDev.
func (d *Dev) VRead() (int, error) {
	d.mu.Lock()
	d.reads++
	mode := d.ReadMode
	if mode == ReadRange {
		d.faultReads++
		v := rangeValues[(d.faultReads-1)%len(rangeValues)]
		d.mu.Unlock()
		return v, nil
	}
	fn := d.ReadFn
	v := d.val
	d.mu.Unlock()
	if mode != ReadOK {
		return -1, readErr(mode, d.Name)
	}
	if fn != nil {
		return fn(), nil
	}
	return v, nil
}

var ErrWriteRefused = errors.New("verif: device refused the write (EINVAL)")

// VWrite implements util.VDev.
func (d *Dev) VWrite(v int) error {
	d.mu.Lock()
	before := d.BeforeWrite
	d.mu.Unlock()
	if before != nil {
		before(v)
	}
	d.mu.Lock()
	mode := d.WriteMode
	if mode == WriteOK {
		d.val = d.quantise(v)
	}
	d.writes = append(d.writes, WriteRec{T: time.Since(d.t0), V: v, Stored: d.val, Mode: mode})
	cb := d.OnWrite
	d.mu.Unlock()
	if mode == WriteRefuse {
		return ErrWriteRefused
	}
	if mode == WriteOK && cb != nil {
		cb(v)
	}
	return nil
}

// Register makes the device serve reads/writes of path and backs the path with an empty real
// file (fan2go's Supports() uses os.Stat directly).
func (d *Dev) Register(path string) {
	_ = os.WriteFile(path, nil, 0644)
	util.VRegister(path, d)
}

func Unregister(paths ...string) {
	for _, p := range paths {
		util.VUnregister(p)
	}
}
