package sim

import (
	"crypto/sha1"
	"encoding/hex"
	"encoding/json"
	"fmt"
	"os"
	"path/filepath"
	"sort"
	"sync"
)

// Stats accumulates what a run actually covered; it is written to $VERIF_STATS at the end of the
// test and merged over all shards into evidence/<ID>.json by the driver.
type Stats struct {
	mu          sync.Mutex
	Property    string           `json:"property"`
	Cases       int              `json:"cases"`
	NonTrivial  int              `json:"nontrivial"`
	Distinct    map[string]bool  `json:"-"`
	DistinctNT  []string         `json:"distinct_nt"` // hashes of distinct non-trivial cases
	Labels      map[string]int   `json:"labels"`
	Samples     []any            `json:"samples"`
	Violations  []ViolationRec   `json:"violations"`
	KnownHits   map[string]int   `json:"known_hits"`
	Extra       map[string]int64 `json:"extra"`
	Exhaustive  bool             `json:"exhaustive"`
	maxSamples  int
	sampleEvery int
}

type ViolationRec struct {
	Key    string `json:"key"`
	Msg    string `json:"msg"`
	Replay string `json:"replay,omitempty"`
}

func NewStats(prop string) *Stats {
	return &Stats{Property: prop, Distinct: map[string]bool{}, Labels: map[string]int{},
		KnownHits: map[string]int{}, Extra: map[string]int64{}, maxSamples: 4}
}

func Hash(v any) string {
	b, _ := json.Marshal(v)
	h := sha1.Sum(b)
	return hex.EncodeToString(h[:8])
}

// Case records one generated case. nontrivial is the property's stated rule evaluated on it.
func (s *Stats) Case(scenario any, nontrivial bool, labels ...string) {
	s.CaseH(Hash(scenario), scenario, nontrivial, labels...)
}

// CaseH is Case with a precomputed identity (for cheap pure cases where JSON hashing would dominate).
func (s *Stats) CaseH(h string, scenario any, nontrivial bool, labels ...string) {
	s.mu.Lock()
	defer s.mu.Unlock()
	s.Cases++
	for _, l := range labels {
		s.Labels[l]++
	}
	if !nontrivial {
		return
	}
	s.NonTrivial++
	if !s.Distinct[h] {
		s.Distinct[h] = true
		if len(s.DistinctNT) < 200000 {
			s.DistinctNT = append(s.DistinctNT, h)
		}
		if len(s.Samples) < s.maxSamples && scenario != nil {
			s.Samples = append(s.Samples, scenario)
		}
	}
}

func (s *Stats) Label(l string)        { s.mu.Lock(); s.Labels[l]++; s.mu.Unlock() }
func (s *Stats) Add(k string, n int64) { s.mu.Lock(); s.Extra[k] += n; s.mu.Unlock() }
func (s *Stats) Sample(v any) {
	s.mu.Lock()
	if len(s.Samples) < s.maxSamples+2 {
		s.Samples = append(s.Samples, v)
	}
	s.mu.Unlock()
}

// Flush writes the statistics file (no-op without $VERIF_STATS).
func (s *Stats) Flush() {
	p := os.Getenv("VERIF_STATS")
	if p == "" {
		return
	}
	s.mu.Lock()
	defer s.mu.Unlock()
	sort.Strings(s.DistinctNT)
	b, _ := json.Marshal(s)
	_ = os.MkdirAll(filepath.Dir(p), 0755)
	_ = os.WriteFile(p, b, 0644)
}

// ---- violations, replays, known findings -------------------------------------------------------

// Violation is one oracle failure, with the semantic key used to match known findings.
type Violation struct {
	Key string `json:"key"`
	Msg string `json:"msg"`
}

func (v Violation) String() string { return v.Key + ": " + v.Msg }

type knownEntry struct {
	Property string `json:"property"`
	Key      string `json:"key"`
	Status   string `json:"status"`
	What     string `json:"what"`
	Commit   string `json:"commit,omitempty"`
}

var (
	knownOnce sync.Once
	known     map[string]knownEntry
)

func loadKnown() {
	known = map[string]knownEntry{}
	p := os.Getenv("VERIF_KNOWN")
	if p == "" {
		p = "/verif/known_findings.json"
	}
	b, err := os.ReadFile(p)
	if err != nil {
		return
	}
	var es []knownEntry
	if json.Unmarshal(b, &es) != nil {
		return
	}
	for _, e := range es {
		if e.Status == "known" {
			known[e.Property+"|"+e.Key] = e
		}
	}
}

// IsKnown reports whether (property,key) is listed as a known (unrepaired) finding.
func IsKnown(prop, key string) bool {
	knownOnce.Do(loadKnown)
	_, ok := known[prop+"|"+key]
	return ok
}

// Judge splits violations into unknown ones (which fail the case) and hits on known findings
// (counted, reported once by the driver as KNOWN-FINDING).
func (s *Stats) Judge(vs []Violation) (fail []Violation) {
	for _, v := range vs {
		if IsKnown(s.Property, v.Key) {
			s.mu.Lock()
			s.KnownHits[v.Key]++
			s.mu.Unlock()
			continue
		}
		fail = append(fail, v)
	}
	return fail
}

// SaveReplay writes the failing scenario where the driver expects it. Rapid re-runs the minimal
// failing case last, so the file left behind is the shrunk one.
func (s *Stats) SaveReplay(unit string, scenario any, vs []Violation) string {
	p := os.Getenv("VERIF_REPLAY_OUT")
	if p == "" {
		return ""
	}
	doc := map[string]any{"property": s.Property, "unit": unit, "scenario": scenario, "violations": vs}
	b, _ := json.MarshalIndent(doc, "", " ")
	_ = os.MkdirAll(filepath.Dir(p), 0755)
	_ = os.WriteFile(p, b, 0644)
	s.mu.Lock()
	s.Violations = []ViolationRec{}
	for _, v := range vs {
		s.Violations = append(s.Violations, ViolationRec{Key: v.Key, Msg: v.Msg, Replay: p})
	}
	s.mu.Unlock()
	return p
}

// ReplayUnit returns the name of the test a replay / regress file belongs to ("" if unknown).
func ReplayUnit(path string) string {
	b, err := os.ReadFile(path)
	if err != nil {
		return ""
	}
	var doc struct {
		Unit string `json:"unit"`
	}
	_ = json.Unmarshal(b, &doc)
	return doc.Unit
}

// LoadReplay reads the scenario part of a replay / regress file into out.
func LoadReplay(path string, out any) error {
	b, err := os.ReadFile(path)
	if err != nil {
		return err
	}
	var doc struct {
		Scenario json.RawMessage `json:"scenario"`
	}
	if err := json.Unmarshal(b, &doc); err != nil {
		return err
	}
	if doc.Scenario == nil {
		return fmt.Errorf("%s: no scenario", path)
	}
	return json.Unmarshal(doc.Scenario, out)
}

// CaseFile records the scenario about to be executed so that the driver can recover it when the
// process dies (panic on a goroutine fan2go spawned).
func CaseFile(prop, unit string, scenario any) {
	p := os.Getenv("VERIF_CASEFILE")
	if p == "" {
		return
	}
	doc := map[string]any{"property": prop, "unit": unit, "scenario": scenario, "violations": []Violation{{Key: "process-died", Msg: "the test process terminated abruptly while executing this scenario"}}}
	b, _ := json.Marshal(doc)
	_ = os.WriteFile(p, b, 0644)
}
