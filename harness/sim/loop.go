package sim

import (
	"context"
	"errors"
	"fmt"
	"os"
	"os/user"
	"path/filepath"
	"sync"
	"testing"
	"testing/synctest"
	"time"

	"github.com/markusressel/fan2go/internal/configuration"
	"github.com/markusressel/fan2go/internal/control_loop"
	"github.com/markusressel/fan2go/internal/controller"
	"github.com/markusressel/fan2go/internal/fans"
	"github.com/markusressel/fan2go/internal/persistence"
)

// FanSpec describes one fan and its virtual hardware.
type FanSpec struct {
	Kind      string          `json:"kind"` // "hwmon" | "file"
	NeverStop bool            `json:"neverStop,omitempty"`
	MinPwm    *int            `json:"minPwm,omitempty"`
	StartPwm  *int            `json:"startPwm,omitempty"`
	MaxPwm    *int            `json:"maxPwm,omitempty"`
	PwmMap    map[int]int     `json:"pwmMap,omitempty"`   // configured map; nil: none
	Measured  map[int]float64 `json:"measured,omitempty"` // stored RPM curve; nil: linear 10*pwm
	NoStored  bool            `json:"noStored,omitempty"` // nothing stored: the controller has to analyse the fan
	Quant     int             `json:"quant,omitempty"`    // device quantiser step (>1)
	NoEnable  bool            `json:"noEnable,omitempty"` // hwmon fan without pwmN_enable
	NoRpm     bool            `json:"noRpm,omitempty"`
	TildeRpm  bool            `json:"tildeRpm,omitempty"` // file fan: rpmPath configured relative to the home directory ("~/...")
	OrigMode  int             `json:"origMode"`
	OrigPwm   int             `json:"origPwm"`
	RpmAvg0   float64         `json:"rpmAvg0,omitempty"` // hwmon: average known from detection
	Slew      int             `json:"slew,omitempty"`    // > 0: the reported RPM follows 10*pwm by at most Slew per read (settle time)
}

type LoopSpec struct {
	Kind      string  `json:"kind"` // "direct" | "pid"
	MaxChange int     `json:"maxChange,omitempty"`
	P         float64 `json:"p,omitempty"`
	I         float64 `json:"i,omitempty"`
	D         float64 `json:"d,omitempty"`
}

func (l LoopSpec) Build() control_loop.ControlLoop {
	if l.Kind == "pid" {
		return control_loop.NewPidControlLoop(l.P, l.I, l.D)
	}
	if l.MaxChange > 0 {
		m := l.MaxChange
		return control_loop.NewDirectControlLoop(&m)
	}
	return control_loop.NewDirectControlLoop(nil)
}

// RpmLaw: the fan reports Rpm while the PWM device is >= Theta, else 0. Theta 0 = spins always.
type RpmLaw struct {
	Theta int `json:"theta"`
	Rpm   int `json:"rpm"`
}

// Step is what happens around one control cycle.
type Step struct {
	Curve    int  `json:"curve"`
	CurveErr bool `json:"curveErr,omitempty"`
	Rpm      *int `json:"rpm,omitempty"`   // change the RPM law's value from this cycle on
	Theta    *int `json:"theta,omitempty"` // change the RPM law's threshold from this cycle on
	Zero     bool `json:"zero,omitempty"`  // an extra UpdateFanSpeed() right after this cycle (elapsed time 0)
	Hold     int  `json:"hold,omitempty"`  // keep these inputs for Hold further cycles (observed only at their end)
	// third-party interference applied before this cycle (after the previous one completed)
	IntMode *int `json:"intMode,omitempty"`
	IntPwm  *int `json:"intPwm,omitempty"`
	// device fault modes in force during this cycle only
	PwmRead   int `json:"pwmRead,omitempty"`
	PwmWrite  int `json:"pwmWrite,omitempty"`
	RpmRead   int `json:"rpmRead,omitempty"`
	ModeRead  int `json:"modeRead,omitempty"`
	ModeWrite int `json:"modeWrite,omitempty"`
}

// StopSpec: how regulation is ended and what the driver does while fan2go restores the fan.
type StopSpec struct {
	// AtMs >= 0: cancel at this virtual time after Run was started (Steps are ignored);
	// AtMs < 0: cancel after the last step.
	AtMs   int  `json:"atMs"`
	OnGrid bool `json:"onGrid,omitempty"` // cancel exactly on the millisecond grid (may coincide with a tick)
	// MidTick (with AtMs < 0): the cancellation happens from inside a device write of the control cycle
	// that follows the last step, and that write is then held for HoldMs virtual milliseconds - the
	// harness owns the schedule "stop request arrives while a control cycle is in flight".
	MidTick   bool `json:"midTick,omitempty"`
	HoldMs    int  `json:"holdMs,omitempty"`
	PwmWrite  int  `json:"pwmWrite,omitempty"`
	ModeWrite int  `json:"modeWrite,omitempty"`
	ModeRead  int  `json:"modeRead,omitempty"`
}

type LoopScenario struct {
	Fan       FanSpec  `json:"fan"`
	Loop      LoopSpec `json:"loop"`
	TickMs    int      `json:"tickMs"`
	RpmPollMs int      `json:"rpmPollMs"`
	RpmWindow int      `json:"rpmWindow"`
	Law       RpmLaw   `json:"law"`
	Steps     []Step   `json:"steps"`
	Stop      StopSpec `json:"stop"`
	RealDb    bool     `json:"realDb,omitempty"` // use the real bbolt persistence
	// PwmUnreadable: the fan's PWM value cannot be read back at any time (a write-only device): fan2go
	// has to rely on what it wrote last
	PwmUnreadable bool `json:"pwmUnreadable,omitempty"`
}

// Obs is what was observed around one control cycle.
type Obs struct {
	FanMin   int        `json:"fanMin"` // fan.GetMinPwm()/GetMaxPwm() immediately before the cycle
	FanMax   int        `json:"fanMax"`
	Pwm      int        `json:"pwm"` // device state after the cycle
	Mode     int        `json:"mode"`
	Writes   []WriteRec `json:"writes,omitempty"` // PWM writes during the cycle
	Evals    int        `json:"evals"`            // curve evaluations during the cycle (1 for a normal cycle)
	Unexp    int        `json:"unexp"`            // controller statistics after the cycle
	Raises   int        `json:"raises"`
	Offset   int        `json:"offset"`
	MinAfter int        `json:"minAfter"` // fan.GetMinPwm() after the cycle
	RpmAvg   float64    `json:"rpmAvg"`
	RpmReads int        `json:"rpmReads"` // cumulative reads of the RPM device
	Zero     bool       `json:"zero,omitempty"`
	// EndedHere: Run returned by itself during this cycle (control error); the cycle's writes are
	// restoration writes, not regulation writes.
	EndedHere bool `json:"endedHere,omitempty"`
}

type LoopResult struct {
	Started      bool       `json:"started"` // regulation began (first curve evaluation seen)
	PreWrites    []WriteRec `json:"preWrites,omitempty"`
	Obs          []Obs      `json:"obs"`
	Ended        bool       `json:"ended"` // Run returned before it was cancelled
	EndedStep    int        `json:"endedStep"`
	RunErr       string     `json:"runErr,omitempty"`
	Hung         bool       `json:"hung"` // Run did not return within 40 virtual minutes after cancellation
	MidTickFired bool       `json:"midTickFired,omitempty"`
	FinalPwm     int        `json:"finalPwm"`
	FinalMode    int        `json:"finalMode"`
	AllWrites    []WriteRec `json:"-"`
	ModeWrites   []WriteRec `json:"modeWrites,omitempty"`
	RestoreLog   []WriteRec `json:"restoreLog,omitempty"` // PWM writes after cancellation
	FirstEval    time.Duration
	// ProbeEvals: curve evaluations during one extra tick after the last step (-1: not probed)
	ProbeEvals  int        `json:"probeEvals"`
	ProbeWrites []WriteRec `json:"probeWrites,omitempty"`
	Panic       string     `json:"panic,omitempty"`
}

// Rig is the assembled fan with its devices.
type Rig struct {
	Fan       fans.Fan
	Pwm       *Dev
	Enable    *Dev
	Rpm       *Dev
	Curve     *ScriptCurve
	law       *RpmLaw
	lagRpm    int
	lawMu     sync.Mutex
	paths     []string
	CurveName string
}

var (
	rigDirOnce sync.Once
	rigDir     string
)

// WorkDir returns a per-process scratch directory (removed by CleanupWorkDir).
func WorkDir() string {
	rigDirOnce.Do(func() {
		base := os.Getenv("VERIF_TMP")
		if base == "" {
			base = os.TempDir()
		}
		_ = os.MkdirAll(base, 0755)
		d, err := os.MkdirTemp(base, "fan2go-verif-")
		if err != nil {
			panic(err)
		}
		rigDir = d
	})
	return rigDir
}

func CleanupWorkDir() {
	if rigDir != "" {
		_ = os.RemoveAll(rigDir)
	}
}

// BuildRig creates the virtual devices and the real fan object for spec. slot distinguishes
// several fans of one case.
func BuildRig(spec FanSpec, slot int, law RpmLaw, curve0 int) *Rig {
	dir := WorkDir()
	id := fmt.Sprintf("f%d", slot)
	r := &Rig{CurveName: "curve_" + id}
	l := law
	r.law = &l
	pwmPath := filepath.Join(dir, id+"_pwm")
	enPath := filepath.Join(dir, id+"_pwm_enable")
	rpmPath := filepath.Join(dir, id+"_fan_input")
	r.Pwm = NewDev(pwmPath, spec.OrigPwm)
	r.Pwm.Quant = spec.Quant
	if spec.Quant > 1 {
		r.Pwm.val = r.Pwm.quantise(spec.OrigPwm)
	}
	r.Pwm.Register(pwmPath)
	r.paths = append(r.paths, pwmPath)
	r.Enable = NewDev(enPath, spec.OrigMode)
	r.Rpm = NewDev(rpmPath, 0)
	r.Rpm.ReadFn = func() int {
		r.lawMu.Lock()
		defer r.lawMu.Unlock()
		if spec.Slew > 0 {
			target := 10 * r.Pwm.Get()
			switch {
			case r.lagRpm < target:
				r.lagRpm = min(target, r.lagRpm+spec.Slew)
			case r.lagRpm > target:
				r.lagRpm = max(target, r.lagRpm-spec.Slew)
			}
			return r.lagRpm
		}
		if r.Pwm.Get() >= r.law.Theta {
			return r.law.Rpm
		}
		return 0
	}
	cfg := configuration.FanConfig{
		ID: id, Curve: r.CurveName, NeverStop: spec.NeverStop,
		MinPwm: spec.MinPwm, StartPwm: spec.StartPwm, MaxPwm: spec.MaxPwm,
	}
	if spec.PwmMap != nil {
		m := map[int]int{}
		for k, v := range spec.PwmMap {
			m[k] = v
		}
		cfg.PwmMap = &m
	}
	switch spec.Kind {
	case "cmd":
		// a script based fan: real /bin/sh scripts over state files implementing the same device model
		Unregister(pwmPath)
		r.Pwm = NewFileDev(pwmPath, spec.OrigPwm)
		r.Rpm = NewFileDev(rpmPath, 0)
		_ = os.WriteFile(rpmPath+".theta", []byte(fmt.Sprint(law.Theta)), 0644)
		_ = os.WriteFile(rpmPath+".rpm", []byte(fmt.Sprint(law.Rpm)), 0644)
		set, get, rpm := filepath.Join(dir, id+"_set.sh"), filepath.Join(dir, id+"_get.sh"), filepath.Join(dir, id+"_rpm.sh")
		script := func(p, body string) {
			_ = os.WriteFile(p, []byte("#!/bin/sh\n"+body), 0755)
			_ = os.Chmod(p, 0755)
		}
		script(set, "F="+pwmPath+"\nm=$(cat $F.wmode)\nif [ \"$m\" = 0 ]; then echo \"$1\" > $F; fi\necho \"$1:$(cat $F)\" >> $F.log\n[ \"$m\" = 1 ] && exit 1\nexit 0\n")
		script(get, "F="+pwmPath+"\necho r >> $F.reads\ncase $(cat $F.rmode) in 1|2|5) exit 1;; 3) echo garbage; exit 0;; 4) exit 0;; 6) echo; exit 0;; 7) echo nan; exit 0;; 8) echo 65535; exit 0;; esac\ncat $F\n")
		script(rpm, "F="+pwmPath+"\nR="+rpmPath+"\necho r >> $R.reads\ncase $(cat $R.rmode) in 1|2|5) exit 1;; 3) echo garbage; exit 0;; 4) exit 0;; 6) echo; exit 0;; 7) echo nan; exit 0;; 8) echo -1; exit 0;; esac\nif [ $(cat $F) -ge $(cat $R.theta) ]; then cat $R.rpm; else echo 0; fi\n")
		cc := &configuration.CmdFanConfig{SetPwm: &configuration.ExecConfig{Exec: set, Args: []string{"%pwm%"}}, GetPwm: &configuration.ExecConfig{Exec: get}}
		if !spec.NoRpm {
			cc.GetRpm = &configuration.ExecConfig{Exec: rpm}
		}
		cfg.Cmd = cc
	case "file":
		fc := &configuration.FileFanConfig{Path: pwmPath}
		if !spec.NoRpm {
			fc.RpmPath = rpmPath
			if spec.TildeRpm {
				// the documented "~/..." spelling: the device lives at <home>/<rel>, the configuration says ~/<rel>
				if u, err := user.Current(); err == nil && u.HomeDir != "" {
					rel := filepath.Join(".fan2go-verif-virtual", filepath.Base(dir), id+"_fan_input")
					rpmPath = filepath.Join(u.HomeDir, rel)
					fc.RpmPath = "~/" + rel
				}
			}
			r.Rpm.Register(rpmPath)
			r.paths = append(r.paths, rpmPath)
		}
		cfg.File = fc
	default:
		hc := &configuration.HwMonFanConfig{Index: 1, RpmChannel: 1, PwmChannel: 1, SysfsPath: dir,
			PwmPath: pwmPath, PwmEnablePath: enPath, RpmInputPath: rpmPath}
		if spec.NoEnable {
			hc.PwmEnablePath = filepath.Join(dir, id+"_absent_enable")
		} else {
			r.Enable.Register(enPath)
			r.paths = append(r.paths, enPath)
		}
		if spec.NoRpm {
			hc.RpmInputPath = filepath.Join(dir, id+"_absent_input")
		} else {
			r.Rpm.Register(rpmPath)
			r.paths = append(r.paths, rpmPath)
		}
		cfg.HwMon = hc
	}
	fan, err := fans.NewFan(cfg)
	if err != nil {
		panic(err)
	}
	if hf, ok := fan.(*fans.HwMonFan); ok {
		hf.RpmMovingAvg = spec.RpmAvg0
	}
	r.Fan = fan
	fans.RegisterFan(fan)
	r.Curve = NewScriptCurve(r.CurveName, curve0)
	return r
}

func (r *Rig) SetLaw(theta, rpm *int) {
	r.lawMu.Lock()
	if theta != nil {
		r.law.Theta = *theta
	}
	if rpm != nil {
		r.law.Rpm = *rpm
	}
	if r.Rpm.file != "" {
		_ = os.WriteFile(r.Rpm.file+".theta", []byte(fmt.Sprint(r.law.Theta)), 0644)
		_ = os.WriteFile(r.Rpm.file+".rpm", []byte(fmt.Sprint(r.law.Rpm)), 0644)
	}
	r.lawMu.Unlock()
}

func (r *Rig) Close() { Unregister(r.paths...) }

// pollOffset keeps RPM polls off the millisecond grid on which control ticks and scenario
// wake-ups lie, so that no two of them ever become runnable at the same virtual instant.
const pollOffset = 137 * time.Nanosecond

func offGrid(on bool) time.Duration {
	if on {
		return 0
	}
	return time.Microsecond
}

var ErrScripted = errors.New("verif: scripted curve evaluation error")

// RunLoop executes sc against the real controller.Run inside a synctest bubble.
func RunLoop(t *testing.T, sc LoopScenario) (res LoopResult) { return RunLoopWith(t, sc, nil) }

// RunLoopWith is RunLoop on a given persistence (used as it is, nothing is pre-seeded).
func RunLoopWith(t *testing.T, sc LoopScenario, given persistence.Persistence) (res LoopResult) {
	BaseConfig()
	configuration.CurrentConfig.RpmPollingRate = time.Duration(sc.RpmPollMs)*time.Millisecond + pollOffset
	configuration.CurrentConfig.RpmRollingWindowSize = sc.RpmWindow
	tick := time.Duration(sc.TickMs) * time.Millisecond
	configuration.CurrentConfig.ControllerAdjustmentTickRate = tick

	curve0 := 0
	if len(sc.Steps) > 0 {
		curve0 = sc.Steps[0].Curve
	}
	rig := BuildRig(sc.Fan, 0, sc.Law, curve0)
	defer rig.Close()

	var pers persistence.Persistence
	mem := NewMemPersistence()
	pers = mem
	if sc.RealDb {
		dbPath := filepath.Join(WorkDir(), "loop.db")
		_ = os.Remove(dbPath)
		pers = persistence.NewPersistence(dbPath)
		defer os.Remove(dbPath)
	}
	if given != nil {
		pers = given
	}
	if !sc.Fan.NoStored && given == nil {
		data := sc.Fan.Measured
		if data == nil {
			data = map[int]float64{}
			for i := 0; i <= 255; i++ {
				data[i] = float64(i * 10)
			}
		}
		if sc.RealDb {
			// store through the real API: attach to a throw-away twin of the fan and save it
			twin, _ := fans.NewFan(configuration.FanConfig{ID: rig.Fan.GetId(), HwMon: &configuration.HwMonFanConfig{}})
			_ = twin.AttachFanRpmCurveData(&data)
			if err := pers.SaveFanPwmData(twin); err != nil {
				panic(err)
			}
		} else {
			mem.Data[rig.Fan.GetId()] = data
		}
	}

	synctest.Test(t, func(st *testing.T) {
		controller.VerifResetInitMutex()
		t0 := time.Now()
		for _, d := range []*Dev{rig.Pwm, rig.Enable, rig.Rpm} {
			d.SetT0(t0)
		}
		rig.Curve.t0 = t0
		rig.Curve.FirstEval = make(chan struct{}) // channels are only durably blocking inside their own bubble
		ctx, cancel := context.WithCancel(context.Background())
		defer cancel()
		if sc.PwmUnreadable {
			rig.Pwm.SetReadMode(ReadEIO)
		}
		ctl := controller.NewFanController(pers, rig.Fan, sc.Loop.Build(), tick)
		done := make(chan error, 1)
		go func() { done <- ctl.Run(ctx) }()

		ended := false
		faultsApplied := false
		restoreFrom := -1
		applyRestoreFaults := func() {
			if faultsApplied {
				return
			}
			faultsApplied = true
			// restoration faults come into force at the moment of cancellation
			rig.Pwm.SetWriteMode(sc.Stop.PwmWrite)
			rig.Enable.SetWriteMode(sc.Stop.ModeWrite)
			rig.Enable.SetReadMode(sc.Stop.ModeRead)
			restoreFrom = rig.Pwm.NumWrites()
		}
		finish := func() {
			applyRestoreFaults()
			nw := restoreFrom
			cancel()
			if !ended {
				select {
				case err := <-done:
					if err != nil {
						res.RunErr = err.Error()
					}
				case <-time.After(40 * time.Minute):
					res.Hung = true
				}
			}
			synctest.Wait()
			res.RestoreLog = rig.Pwm.Writes(nw)
			res.FinalPwm = rig.Pwm.Get()
			res.FinalMode = rig.Enable.Get()
			res.ModeWrites = rig.Enable.Writes(0)
			res.AllWrites = rig.Pwm.Writes(0)
		}

		if sc.Stop.AtMs >= 0 {
			select {
			case err := <-done:
				ended = true
				res.Ended = true
				if err != nil {
					res.RunErr = err.Error()
				}
			case <-time.After(time.Duration(sc.Stop.AtMs)*time.Millisecond + offGrid(sc.Stop.OnGrid)):
			}
			synctest.Wait()
			res.Started = rig.Curve.Evals() > 0
			res.FirstEval = rig.Curve.FirstAt()
			finish()
			return
		}

		// wait for regulation to begin
		select {
		case <-rig.Curve.FirstEval:
		case err := <-done:
			ended = true
			res.Ended = true
			if err != nil {
				res.RunErr = err.Error()
			}
			finish()
			return
		}
		res.Started = true
		res.FirstEval = time.Since(t0)
		// the first Evaluate happens in the middle of cycle 1: inputs of step 0 were applied before
		// Run started; observe it after the cycle completed
		fanMin, fanMax := rig.Fan.GetMinPwm(), rig.Fan.GetMaxPwm() // unchanged by the cycle's head
		_ = fanMin
		nPre := 0
		{
			// writes before the first evaluation are start-up / analysis writes
			all := rig.Pwm.Writes(0)
			for _, w := range all {
				if w.T < res.FirstEval {
					nPre++
				}
			}
			res.PreWrites = all[:nPre]
		}
		synctest.Wait()
		wIdx := nPre
		evals := 0
		var checkEnded func(i int) bool
		observe := func(min0, max0 int, zero bool) {
			was := ended
			checkEnded(len(res.Obs))
			st := ctl.GetStatistics()
			o := Obs{FanMin: min0, FanMax: max0, Pwm: rig.Pwm.Get(), Mode: rig.Enable.Get(),
				Writes: rig.Pwm.Writes(wIdx), Evals: rig.Curve.Evals() - evals,
				Unexp: st.UnexpectedPwmValueCount, Raises: st.IncreasedMinPwmCount, Offset: st.MinPwmOffset,
				MinAfter: rig.Fan.GetMinPwm(), RpmAvg: rig.Fan.GetRpmAvg(), RpmReads: rig.Rpm.Reads(), Zero: zero,
				EndedHere: ended && !was}
			wIdx = rig.Pwm.NumWrites()
			evals = rig.Curve.Evals()
			res.Obs = append(res.Obs, o)
		}
		// cycle 1: the fan limits before it are those after start-up; they can only be changed by the
		// cycle itself (stall branch), which runs after the limits were read - so read-after equals
		// read-before unless a raise happened, in which case the oracle uses Offset.
		checkEnded = func(i int) bool {
			if ended {
				return true
			}
			select {
			case err := <-done:
				ended = true
				res.Ended = true
				res.EndedStep = i
				if err != nil {
					res.RunErr = err.Error()
				}
				return true
			default:
				return false
			}
		}
		observe(fanMin, fanMax, false)
		applyFaults := func(s Step) {
			if sc.PwmUnreadable && s.PwmRead == 0 {
				s.PwmRead = ReadEIO
			}
			rig.Pwm.SetReadMode(s.PwmRead)
			rig.Pwm.SetWriteMode(s.PwmWrite)
			rig.Rpm.SetReadMode(s.RpmRead)
			rig.Enable.SetReadMode(s.ModeRead)
			rig.Enable.SetWriteMode(s.ModeWrite)
		}
		if len(sc.Steps) > 0 && sc.Steps[0].Zero && !checkEnded(0) {
			min0, max0 := rig.Fan.GetMinPwm(), rig.Fan.GetMaxPwm()
			_ = ctl.UpdateFanSpeed()
			observe(min0, max0, true)
		}
		// move to the middle between two ticks
		time.Sleep(tick / 2)
		synctest.Wait()
		for i := 1; i < len(sc.Steps); i++ {
			if checkEnded(i) {
				break
			}
			s := sc.Steps[i]
			rig.Curve.Set(s.Curve)
			if s.CurveErr {
				rig.Curve.SetErr(ErrScripted)
			} else {
				rig.Curve.SetErr(nil)
			}
			rig.SetLaw(s.Theta, s.Rpm)
			if s.IntMode != nil {
				rig.Enable.Set(*s.IntMode)
			}
			if s.IntPwm != nil {
				rig.Pwm.Set(*s.IntPwm)
			}
			applyFaults(s)
			min0, max0 := rig.Fan.GetMinPwm(), rig.Fan.GetMaxPwm()
			time.Sleep(tick * time.Duration(1+s.Hold))
			synctest.Wait()
			observe(min0, max0, false)
			if s.Zero && !checkEnded(i) {
				min0, max0 = rig.Fan.GetMinPwm(), rig.Fan.GetMaxPwm()
				_ = ctl.UpdateFanSpeed()
				observe(min0, max0, true)
			}
			applyFaults(Step{})
		}
		if !ended {
			checkEnded(len(sc.Steps))
		}
		if !ended && sc.Stop.AtMs == -1 && sc.Stop.MidTick {
			// stop request in the middle of the next control cycle
			fired := false
			hook := func(int) {
				if fired {
					return
				}
				fired = true
				applyRestoreFaults()
				cancel()
				time.Sleep(time.Duration(sc.Stop.HoldMs)*time.Millisecond + 3*time.Microsecond)
			}
			hasMode := sc.Fan.Kind == "hwmon" && !sc.Fan.NoEnable
			if hasMode {
				rig.Enable.SetBeforeWrite(hook) // the manual-mode write happens in every cycle
			} else {
				rig.Pwm.SetBeforeWrite(hook)
				last := 0
				if len(sc.Steps) > 0 {
					last = sc.Steps[len(sc.Steps)-1].Curve
				}
				rig.Curve.Set((last + 97) % 256) // a different target, so that this cycle writes the PWM
			}
			time.Sleep(tick + time.Duration(sc.Stop.HoldMs)*time.Millisecond)
			synctest.Wait()
			res.MidTickFired = fired
			rig.Enable.SetBeforeWrite(nil)
			rig.Pwm.SetBeforeWrite(nil)
			res.ProbeEvals = -1
		} else if !ended && sc.Stop.AtMs == -1 {
			// probe tick: does regulation still go on? (a fan with an RPM monitor keeps Run alive
			// after a control error, so "Run returned" cannot be used to see that regulation ended)
			time.Sleep(tick)
			synctest.Wait()
			res.ProbeEvals = rig.Curve.Evals() - evals
			res.ProbeWrites = rig.Pwm.Writes(wIdx)
		} else {
			res.ProbeEvals = -1
		}
		finish()
	})
	// the cycle after which no further evaluation happens is the one that ended regulation
	last := -1
	for i, o := range res.Obs {
		if !o.Zero {
			if o.Evals == 0 && last >= 0 && !res.Ended {
				res.Obs[last].EndedHere = true
				res.Ended = true
				res.EndedStep = last
			}
			if o.Evals > 0 {
				last = i
			}
		}
	}
	if res.ProbeEvals == 0 && last >= 0 && !res.Ended {
		res.Obs[last].EndedHere = true
		res.Ended = true
		res.EndedStep = last
	}
	return res
}

// RunInit performs what `fan2go fan init` does for the fan: delete both stored entries, then the
// exported RunInitializationSequence - inside a bubble, on fresh objects.
func RunInit(t *testing.T, spec FanSpec, law RpmLaw, pers persistence.Persistence) (writes []WriteRec, finalPwm int, err error) {
	BaseConfig()
	rig := BuildRig(spec, 0, law, 0)
	defer rig.Close()
	synctest.Test(t, func(st *testing.T) {
		controller.VerifResetInitMutex()
		t0 := time.Now()
		for _, d := range []*Dev{rig.Pwm, rig.Enable, rig.Rpm} {
			d.SetT0(t0)
		}
		ctl := controller.NewFanController(pers, rig.Fan, control_loop.NewDirectControlLoop(nil), 200*time.Millisecond)
		if err = pers.DeleteFanPwmData(rig.Fan); err != nil {
			return
		}
		if err = pers.DeleteFanPwmMap(rig.Fan.GetId()); err != nil {
			return
		}
		err = ctl.RunInitializationSequence()
	})
	return rig.Pwm.Writes(0), rig.Pwm.Get(), err
}
