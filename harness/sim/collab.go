package sim

import (
	"errors"
	"os"
	"sync"
	"time"

	"github.com/markusressel/fan2go/internal/configuration"
	"github.com/markusressel/fan2go/internal/curves"
	"github.com/markusressel/fan2go/internal/fans"
	"github.com/markusressel/fan2go/internal/persistence"
)

// ScriptCurve is a curves.SpeedCurve whose value the scenario dictates. Its first Evaluate call
// is the black-box marker "regulation has started".
type ScriptCurve struct {
	mu        sync.Mutex
	Id        string
	val       int
	err       error
	evals     int
	firstAt   time.Duration
	t0        time.Time
	FirstEval chan struct{} // closed on the first Evaluate
}

func NewScriptCurve(id string, v int) *ScriptCurve {
	c := &ScriptCurve{Id: id, val: v, t0: time.Now(), FirstEval: make(chan struct{})}
	curves.RegisterSpeedCurve(c)
	return c
}

// Rebase must be called inside the bubble before the curve is used: it sets the time origin and
// re-creates the FirstEval channel (channels are only durably blocking inside their own bubble).
func (c *ScriptCurve) Rebase(t0 time.Time) {
	c.mu.Lock()
	c.t0 = t0
	c.FirstEval = make(chan struct{})
	c.mu.Unlock()
}

func (c *ScriptCurve) GetId() string { return c.Id }
func (c *ScriptCurve) Evaluate() (int, error) {
	c.mu.Lock()
	defer c.mu.Unlock()
	c.evals++
	if c.evals == 1 {
		c.firstAt = time.Since(c.t0)
		close(c.FirstEval)
	}
	if c.err != nil {
		return c.val, c.err
	}
	return c.val, nil
}

// MarkFirstEval records "regulation would start now" without an evaluation (units that drive the analysis alone).
func (c *ScriptCurve) MarkFirstEval() {
	c.mu.Lock()
	defer c.mu.Unlock()
	if c.evals == 0 {
		c.evals = 1
		c.firstAt = time.Since(c.t0) + time.Nanosecond
		close(c.FirstEval)
	}
}
func (c *ScriptCurve) CurrentValue() int { c.mu.Lock(); defer c.mu.Unlock(); return c.val }
func (c *ScriptCurve) Set(v int)         { c.mu.Lock(); c.val = v; c.mu.Unlock() }
func (c *ScriptCurve) SetErr(e error)    { c.mu.Lock(); c.err = e; c.mu.Unlock() }
func (c *ScriptCurve) Evals() int        { c.mu.Lock(); defer c.mu.Unlock(); return c.evals }
func (c *ScriptCurve) FirstAt() time.Duration {
	c.mu.Lock()
	defer c.mu.Unlock()
	return c.firstAt
}

// MemPersistence is an in-memory persistence.Persistence for properties that are not about storage.
type MemPersistence struct {
	mu   sync.Mutex
	Data map[string]map[int]float64
	Maps map[string]map[int]int
}

var _ persistence.Persistence = (*MemPersistence)(nil)

func NewMemPersistence() *MemPersistence {
	return &MemPersistence{Data: map[string]map[int]float64{}, Maps: map[string]map[int]int{}}
}
func (p *MemPersistence) Init() error { return nil }
func (p *MemPersistence) LoadFanPwmData(fan fans.Fan) (map[int]float64, error) {
	p.mu.Lock()
	defer p.mu.Unlock()
	d, ok := p.Data[fan.GetId()]
	if !ok {
		return nil, os.ErrNotExist
	}
	out := map[int]float64{}
	for k, v := range d {
		out[k] = v
	}
	return out, nil
}
func (p *MemPersistence) SaveFanPwmData(fan fans.Fan) error {
	p.mu.Lock()
	defer p.mu.Unlock()
	src := fan.GetFanRpmCurveData()
	if src == nil {
		return errors.New("verif: no curve data")
	}
	out := map[int]float64{}
	for k, v := range *src {
		out[k] = v
	}
	p.Data[fan.GetId()] = out
	return nil
}
func (p *MemPersistence) DeleteFanPwmData(fan fans.Fan) error {
	p.mu.Lock()
	defer p.mu.Unlock()
	delete(p.Data, fan.GetId())
	return nil
}
func (p *MemPersistence) LoadFanPwmMap(id string) (map[int]int, error) {
	p.mu.Lock()
	defer p.mu.Unlock()
	d, ok := p.Maps[id]
	if !ok {
		return nil, os.ErrNotExist
	}
	out := map[int]int{}
	for k, v := range d {
		out[k] = v
	}
	return out, nil
}
func (p *MemPersistence) SaveFanPwmMap(id string, m map[int]int) error {
	p.mu.Lock()
	defer p.mu.Unlock()
	out := map[int]int{}
	for k, v := range m {
		out[k] = v
	}
	p.Maps[id] = out
	return nil
}
func (p *MemPersistence) DeleteFanPwmMap(id string) error {
	p.mu.Lock()
	defer p.mu.Unlock()
	delete(p.Maps, id)
	return nil
}

// SeedLinearData stores "pwm -> 10*pwm RPM" for the fan so that start-up goes straight to regulation.
func (p *MemPersistence) SeedLinearData(id string) {
	d := map[int]float64{}
	for i := 0; i <= 255; i++ {
		d[i] = float64(i * 10)
	}
	p.mu.Lock()
	p.Data[id] = d
	p.mu.Unlock()
}

// BaseConfig resets fan2go's global configuration to the documented defaults.
func BaseConfig() {
	configuration.CurrentConfig = configuration.Configuration{
		RunFanInitializationInParallel: true,
		MaxRpmDiffForSettledFan:        20,
		FanResponseDelay:               2,
		TempSensorPollingRate:          200 * time.Millisecond,
		TempRollingWindowSize:          10,
		RpmPollingRate:                 time.Second,
		RpmRollingWindowSize:           10,
		ControllerAdjustmentTickRate:   200 * time.Millisecond,
	}
}
