// Pure-Go stand-in for github.com/md14454/gosensors (cgo/libsensors) used only by /verif.
package gosensors

import (
	"os"
	"path/filepath"
	"regexp"
	"sort"
	"strconv"
	"strings"
)

type SubFeatureType int32
type FeatureType int32

// values as in lm-sensors 3.6 sensors.h
const (
	FeatureTypeIn   FeatureType = 0x00
	FeatureTypeFan  FeatureType = 0x01
	FeatureTypeTemp FeatureType = 0x02

	SubFeatureTypeFanInput SubFeatureType = 1 << 8
	SubFeatureTypeFanMin   SubFeatureType = 1<<8 + 1
	SubFeatureTypeFanMax   SubFeatureType = 1<<8 + 2

	SubFeatureTypeTempInput SubFeatureType = 2 << 8
	SubFeatureTypeTempMax   SubFeatureType = 2<<8 + 1
	SubFeatureTypeTempMin   SubFeatureType = 2<<8 + 3
)

type SubFeature struct {
	Name   string
	Number int32
	Type   SubFeatureType
	path   string
}

func (s SubFeature) GetValue() float64 {
	b, err := os.ReadFile(s.path)
	if err != nil {
		return 0
	}
	v, _ := strconv.ParseFloat(strings.TrimSpace(string(b)), 64)
	if s.Type>>8 == 2 {
		return v / 1000
	}
	return v
}

type Feature struct {
	Name   string
	Number int32
	Type   FeatureType
	subs   []SubFeature
}

func (f Feature) GetSubFeatures() []SubFeature { return f.subs }

type Bus struct {
	Type int16
	Nr   int16
}
type Chip struct {
	Prefix string
	Bus    Bus
	Addr   int32
	Path   string
}

func Init()    {}
func Cleanup() {}

func root() string { return os.Getenv("FAN2GO_VERIF_HWMON_ROOT") }

func GetDetectedChips() []Chip {
	r := root()
	if r == "" {
		return nil
	}
	var names []string
	if b, err := os.ReadFile(filepath.Join(r, "order")); err == nil {
		names = strings.Fields(string(b))
	} else {
		es, _ := os.ReadDir(r)
		for _, e := range es {
			if e.IsDir() {
				names = append(names, e.Name())
			}
		}
		sort.Strings(names)
	}
	var out []Chip
	for _, n := range names {
		p := filepath.Join(r, n)
		nb, _ := os.ReadFile(filepath.Join(p, "name"))
		c := Chip{Prefix: strings.TrimSpace(string(nb)), Path: p}
		if b, err := os.ReadFile(filepath.Join(p, "verif_bus")); err == nil {
			f := strings.Fields(string(b))
			if len(f) == 3 {
				t, _ := strconv.Atoi(f[0])
				nr, _ := strconv.Atoi(f[1])
				a, _ := strconv.ParseInt(f[2], 0, 32)
				c.Bus = Bus{int16(t), int16(nr)}
				c.Addr = int32(a)
			}
		}
		out = append(out, c)
	}
	return out
}

var featRe = regexp.MustCompile(`^(fan|temp)([0-9]+)_(input|min|max)$`)

func (c Chip) GetFeatures() []Feature {
	es, _ := os.ReadDir(c.Path)
	type key struct {
		kind string
		n    int
	}
	m := map[key]*Feature{}
	var keys []key
	for _, e := range es {
		g := featRe.FindStringSubmatch(e.Name())
		if g == nil {
			continue
		}
		n, _ := strconv.Atoi(g[2])
		k := key{g[1], n}
		f := m[k]
		if f == nil {
			ft := FeatureTypeFan
			if g[1] == "temp" {
				ft = FeatureTypeTemp
			}
			f = &Feature{Name: g[1] + g[2], Number: int32(n), Type: ft}
			m[k] = f
			keys = append(keys, k)
		}
		var st SubFeatureType
		switch g[1] + "_" + g[3] {
		case "fan_input":
			st = SubFeatureTypeFanInput
		case "fan_min":
			st = SubFeatureTypeFanMin
		case "fan_max":
			st = SubFeatureTypeFanMax
		case "temp_input":
			st = SubFeatureTypeTempInput
		case "temp_min":
			st = SubFeatureTypeTempMin
		case "temp_max":
			st = SubFeatureTypeTempMax
		}
		f.subs = append(f.subs, SubFeature{Name: e.Name(), Type: st, path: filepath.Join(c.Path, e.Name())})
	}
	// libsensors orders features by type (in, fan, temp, ...) then by number
	sort.Slice(keys, func(i, j int) bool {
		if keys[i].kind != keys[j].kind {
			return keys[i].kind < keys[j].kind
		}
		return keys[i].n < keys[j].n
	})
	var out []Feature
	for _, k := range keys {
		out = append(out, *m[k])
	}
	return out
}
