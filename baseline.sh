#!/bin/bash
# dev helper: run the repository's pinned suite (guard off, default toolchain) and count passing tests
cd /repo && GOFLAGS=-mod=mod go test -json -vet=off -count=1 -timeout 25m ./... 2>/dev/null | python3 -c "
import sys, json
ok=set(); bad=set()
for l in sys.stdin:
    try: e=json.loads(l)
    except: continue
    if e.get('Test') and '/' not in e['Test']:
        if e.get('Action')=='pass': ok.add(e['Package']+'::'+e['Test'])
        if e.get('Action')=='fail': bad.add(e['Package']+'::'+e['Test'])
base=set(json.load(open('/root/.vp/BASELINE.json'))['stable_pass'])
print('passed', len(ok), 'failed', len(bad), 'baseline missing', sorted(base-ok))
sys.exit(0 if base<=ok and not bad else 1)
"
