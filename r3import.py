#!/usr/bin/env python3
# dev helper: import round-3 sub-agent deliverables (/var/tmp/r3/<ID>/<ID>-n) into /verif/seeded/<ID>-<slug>/
import json, os, shutil, sys
NAMES = json.load(open('/var/tmp/r3/names.json'))
for key, slug in NAMES.items():
    pid = key.split('-')[0]
    src = '/var/tmp/r3/%s/%s' % (pid, key)
    if not os.path.exists(src + '/patch.diff'):
        print('missing', src); continue
    dst = '/verif/seeded/%s-%s' % (pid, slug)
    if os.path.exists(dst):
        continue
    m = json.load(open(src + '/meta.json'))
    os.makedirs(dst + '/demo', exist_ok=True)
    shutil.copy(src + '/patch.diff', dst + '/patch.diff')
    for f in os.listdir(src + '/demo'):
        if f.endswith('.go') or f.endswith('.md'):
            shutil.copy(os.path.join(src, 'demo', f), dst + '/demo/' + f)
    demo = {"pkg": m['pkg'].strip('./'), "run": m['run'], "stub": bool(m.get('stub')), "race": bool(m.get('race'))}
    if m.get('go'):
        demo['go'] = m['go']
    json.dump({"property": pid, "what": m['what'], "needs": m['needs'],
               "author": "independent sub-agent given only the property text (round 3: plus the ideas used in rounds 1-2) and a scratch worktree",
               "round": 3, "demo": demo, "checks": [pid]}, open(dst + '/meta.json', 'w'), indent=1)
    print('imported', dst)
