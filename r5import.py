#!/usr/bin/env python3
# dev helper: import round-5 sub-agent deliverables (/var/tmp/r5/g*/<ID>/) into /verif/seeded/<ID>-<slug>/
import json, os, shutil, glob
for src in sorted(glob.glob('/var/tmp/r5/g*/C??')):
    pid = os.path.basename(src)
    if not (os.path.exists(src + '/patch.diff') and os.path.exists(src + '/meta.json')):
        print('missing', src); continue
    m = json.load(open(src + '/meta.json'))
    dst = '/verif/seeded/%s-%s' % (pid, m['slug'])
    if os.path.exists(dst):
        continue
    os.makedirs(dst + '/demo', exist_ok=True)
    shutil.copy(src + '/patch.diff', dst + '/patch.diff')
    for f in os.listdir(src + '/demo'):
        if f.endswith('.go') or f.endswith('.md'):
            shutil.copy(os.path.join(src, 'demo', f), dst + '/demo/' + f)
    demo = {"pkg": m['pkg'].strip('./'), "run": m['run'], "stub": bool(m.get('stub')), "race": bool(m.get('race'))}
    if m.get('go'):
        demo['go'] = m['go']
    json.dump({"property": pid, "what": m['what'], "needs": m['needs'],
               "author": "independent sub-agent given only the property text and a scratch worktree (round 5: told that a checker exists which caught ~160 earlier ideas, asked to hide the violation in a rare path)",
               "round": 5, "demo": demo, "checks": [pid]}, open(dst + '/meta.json', 'w'), indent=1)
    print('imported', os.path.basename(dst))
