//go:build verif

// Added to package controller at check time through `go -overlay` (never committed to /repo).
// A channel based mutex with the same Lock/Unlock contract as sync.Mutex; unlike sync.Mutex its
// waiters are "durably blocked" for testing/synctest, so a bubble's fake clock keeps running
// while one controller waits for another one's initialisation to finish.
package controller

type verifChanMutex struct{ ch chan struct{} }

func newVerifChanMutex() *verifChanMutex { return &verifChanMutex{ch: make(chan struct{}, 1)} }
func (m *verifChanMutex) Lock()          { m.ch <- struct{}{} }
func (m *verifChanMutex) Unlock()        { <-m.ch }
func (m *verifChanMutex) TryLock() bool {
	select {
	case m.ch <- struct{}{}:
		return true
	default:
		return false
	}
}

// VerifResetInitMutex replaces the global initialisation mutex by a fresh one. Channels are
// only durably blocking inside the synctest bubble that created them, so every bubble that
// exercises the non-parallel initialisation creates its own.
func VerifResetInitMutex() { InitializationSequenceMutex = newVerifChanMutex() }
