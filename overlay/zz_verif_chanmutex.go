//go:build verif

// Added to package controller at check time through `go -overlay` (never committed to /repo).
// verifMutex stands in for every sync.Mutex of the package: a channel based mutex with the same contract
// (usable zero value, Lock / Unlock / TryLock, a sync.Locker). Unlike sync.Mutex its waiters are "durably
// blocked" for testing/synctest, so a bubble's fake clock keeps running while one controller waits for
// another one's initialisation to finish.
package controller

import (
	"sync"
	"sync/atomic"
)

type verifMutex struct{ p atomic.Pointer[chan struct{}] }

var verifMutexes struct {
	mu   sync.Mutex
	list []*verifMutex
}

func (m *verifMutex) ch() chan struct{} {
	if c := m.p.Load(); c != nil {
		return *c
	}
	c := make(chan struct{}, 1)
	if m.p.CompareAndSwap(nil, &c) {
		verifMutexes.mu.Lock()
		verifMutexes.list = append(verifMutexes.list, m)
		verifMutexes.mu.Unlock()
		return c
	}
	return *m.p.Load()
}

func (m *verifMutex) Lock() { m.ch() <- struct{}{} }

func (m *verifMutex) Unlock() {
	select {
	case <-m.ch():
	default:
		panic("sync: unlock of unlocked mutex")
	}
}

func (m *verifMutex) TryLock() bool {
	select {
	case m.ch() <- struct{}{}:
		return true
	default:
		return false
	}
}

// VerifResetInitMutex forgets the channels of all mutexes used so far: channels are only durably
// blocking inside the synctest bubble that created them, so every bubble starts with fresh ones
// (no controller of an earlier bubble is alive at that point).
func VerifResetInitMutex() {
	verifMutexes.mu.Lock()
	for _, m := range verifMutexes.list {
		m.p.Store(nil)
	}
	verifMutexes.list = nil
	verifMutexes.mu.Unlock()
}
