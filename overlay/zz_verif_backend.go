//go:build verif

// Added to package internal at check time through `go -overlay` (never committed to /repo): gives the
// harness access to the daemon's own construction of fan controllers from the configuration.
package internal

import (
	"errors"

	"github.com/markusressel/fan2go/internal/configuration"
	"github.com/markusressel/fan2go/internal/controller"
	"github.com/markusressel/fan2go/internal/fans"
	"github.com/markusressel/fan2go/internal/persistence"
)

var ErrVerifHookUnavailable = errors.New("verif: internal.initializeFanControllers is not available on this tree")

func VerifInitializeFanControllers(pers persistence.Persistence, fanMap map[configuration.FanConfig]fans.Fan) (map[fans.Fan]controller.FanController, error) {
	return initializeFanControllers(pers, fanMap)
}
