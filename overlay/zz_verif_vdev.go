//go:build verif

// Added to package util at check time through `go -overlay` (never committed to /repo).
// ReadIntFromFile / WriteIntToFile / WriteIntToFileAtomic are re-defined here as thin
// dispatchers: a path registered in the virtual device table is served by its device model,
// every other path goes to the renamed original implementation in file.go.
package util

import (
	"fmt"
	"os"
	"path/filepath"
	"sync"
	"sync/atomic"
)

// VDev is a scripted device model standing in for one sysfs / plain file.
type VDev interface {
	VRead() (int, error)
	VWrite(v int) error
}

// VTextDev is optionally implemented by a device model: when VReadText reports use == true the
// device only decides the *content* of the file and the tree's own ReadIntFromFile parses it (through a
// scratch file), so that what fan2go makes of blank, non-numeric or "nan" content is fan2go's doing.
type VTextDev interface {
	VReadText() (text string, use bool)
}

var verifTextSeq atomic.Uint64

var verifDevs sync.Map // path -> VDev

func VRegister(path string, d VDev) { verifDevs.Store(path, d) }
func VUnregister(path string)       { verifDevs.Delete(path) }

func verifDev(path string) VDev {
	if d, ok := verifDevs.Load(path); ok {
		return d.(VDev)
	}
	return nil
}

func ReadIntFromFile(path string) (int, error) {
	if d := verifDev(path); d != nil {
		if td, ok := d.(VTextDev); ok {
			if text, use := td.VReadText(); use {
				tmp := filepath.Join(os.TempDir(), fmt.Sprintf("verif-vtext-%d-%d", os.Getpid(), verifTextSeq.Add(1)))
				if err := os.WriteFile(tmp, []byte(text), 0644); err != nil {
					return -1, err
				}
				defer os.Remove(tmp)
				return verifOrigReadIntFromFile(tmp)
			}
		}
		return d.VRead()
	}
	return verifOrigReadIntFromFile(path)
}

func WriteIntToFile(value int, path string) error {
	if d := verifDev(path); d != nil {
		return d.VWrite(value)
	}
	return verifOrigWriteIntToFile(value, path)
}

func WriteIntToFileAtomic(value int, path string) error {
	if d := verifDev(path); d != nil {
		return d.VWrite(value)
	}
	return verifOrigWriteIntToFileAtomic(value, path)
}
