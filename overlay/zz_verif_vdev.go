//go:build verif

// Added to package util at check time through `go -overlay` (never committed to /repo).
// ReadIntFromFile / WriteIntToFile / WriteIntToFileAtomic are re-defined here as thin
// dispatchers: a path registered in the virtual device table is served by its device model,
// every other path goes to the renamed original implementation in file.go.
package util

import "sync"

// VDev is a scripted device model standing in for one sysfs / plain file.
type VDev interface {
	VRead() (int, error)
	VWrite(v int) error
}

var verifDevs sync.Map // path -> VDev

func VRegister(path string, d VDev) { verifDevs.Store(path, d) }
func VUnregister(path string)       { verifDevs.Delete(path) }

func verifDev(path string) VDev {
	if d, ok := verifDevs.Load(path); ok {
		return d.(VDev)
	}
	return nil
}

func ReadIntFromFile(path string) (int, error) {
	if d := verifDev(path); d != nil {
		return d.VRead()
	}
	return verifOrigReadIntFromFile(path)
}

func WriteIntToFile(value int, path string) error {
	if d := verifDev(path); d != nil {
		return d.VWrite(value)
	}
	return verifOrigWriteIntToFile(value, path)
}

func WriteIntToFileAtomic(value int, path string) error {
	if d := verifDev(path); d != nil {
		return d.VWrite(value)
	}
	return verifOrigWriteIntToFileAtomic(value, path)
}
