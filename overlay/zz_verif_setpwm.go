//go:build verif

// Added to package controller at check time through `go -overlay` (never committed to /repo): lets the
// harness give a controller a PWM map and call its own setPwm with any request.
package controller

import "errors"

var ErrVerifHookUnavailable = errors.New("verif: controller.setPwm is not available in its expected shape on this tree")

// VerifSetPwmMap installs m as the controller's PWM map the way computePwmMap does.
func (f *DefaultFanController) VerifSetPwmMap(m map[int]int) error {
	f.pwmMap = m
	f.updateDistinctPwmValues()
	return nil
}

// VerifSetPwm is the controller's own setPwm.
func (f *DefaultFanController) VerifSetPwm(target int) error {
	return f.setPwm(target)
}
